(* C01 / C07 / C08: the registry (pkg/registry + the client library's vectors), with its nested
   maps, hash keys and remembered label maps, refines the simplest possible account of what the
   exporter exposes: three finite functions -
     claim  : name -> (type, help)                         once claimed, never released
     shape  : name -> label names -> vector options         fixed by the first sample of that shape
     series : name -> label names -> label values -> (value, last sample time, ttl)
   Every clause of the properties is a one-line fact about these functions. *)
From SE Require Export Model.Exporter.
From Coq Require Import ZArith.

Record fseries := { fv_value : mvalue; fv_last : Z; fv_ttl : Z }.

Record fstate := {
  f_claim : bytes -> option (mtype * bytes);
  f_shape : bytes -> list bytes -> option (list F64 * list F64 * Z);   (* buckets, objectives, max age *)
  f_series : bytes -> list bytes -> list bytes -> option fseries;
  f_created : list (mtype * N) }.

Definition f_empty : fstate :=
  {| f_claim := fun _ => None; f_shape := fun _ _ => None; f_series := fun _ _ _ => None; f_created := [] |}.

Definition upd1 {B} (f : bytes -> B) (k : bytes) (v : B) : bytes -> B :=
  fun k' => if bytes_eqb k' k then v else f k'.
Definition upd2 {B} (f : bytes -> list bytes -> B) (k : bytes) (ks : list bytes) (v : B) : bytes -> list bytes -> B :=
  fun k' ks' => if bytes_eqb k' k && list_bytes_eqb' ks' ks then v else f k' ks'.
Definition upd3 {B} (f : bytes -> list bytes -> list bytes -> B) (k : bytes) (ks vs : list bytes) (v : B)
  : bytes -> list bytes -> list bytes -> B :=
  fun k' ks' vs' => if bytes_eqb k' k && list_bytes_eqb' ks' ks && list_bytes_eqb' vs' vs then v else f k' ks' vs'.

(* the documented conflict rule (C08): another type already claims the name, or the name and an
   existing histogram/summary would share a _bucket/_count/_sum series *)
Definition f_collision (st : fstate) (name : bytes) (t : mtype) : bool :=
  let base_hits (suffix : bytes) (summary_counts : bool) :=
    if has_suffix suffix name then
      match f_claim st (trim_suffix suffix name) with
      | Some (MHistogram, _) => true
      | Some (MSummary, _) => summary_counts
      | _ => false
      end
    else false in
  base_hits s_bucket false || base_hits s_count true || base_hits s_sum true ||
  match t with
  | MHistogram => opt_some (f_claim st (name ++ s_bucket)) || opt_some (f_claim st (name ++ s_count)) || opt_some (f_claim st (name ++ s_sum))
  | MSummary => opt_some (f_claim st (name ++ s_count)) || opt_some (f_claim st (name ++ s_sum))
  | _ => false
  end.

Inductive fres :=
| FOk (st : fstate)           (* the sample was applied *)
| FConflict (st : fstate)     (* dropped alone; st differs from the input at most in f_created *)
| FPanic.

(* one sample reaching the registry *)
Definition f_sample (st : fstate) (d : defaults) (rule_ : option rule) (now : Z) (t : mtype) (name : bytes)
           (labels : lmap) (help : bytes) (ttl : Z) (upd : mvalue -> res mvalue) : fres :=
  let names := lm_keys labels in
  let values := lm_vals labels in
  let apply := fun (st' : fstate) (v : mvalue) =>
    match upd v with
    | Ok v' => FOk {| f_claim := f_claim st'; f_shape := f_shape st';
                      f_series := upd3 (f_series st') name names values (Some {| fv_value := v'; fv_last := now; fv_ttl := ttl |});
                      f_created := f_created st' |}
    | Panic => FPanic
    end in
  match f_claim st name, f_series st name names values with
  | Some (t', _), Some s =>
    if mtype_eqb t' t then apply st (fv_value s)      (* existing series: restart the clock, apply this sample's ttl *)
    else FConflict st
  | claim, _ =>
    if match claim with Some (t', _) => negb (mtype_eqb t' t) | None => false end then FConflict st
    else if f_collision st name t then FConflict st
    else
      let fam_help := match claim with Some (_, h) => h | None => help end in
      let '(opts, created) :=
        match f_shape st name names with
        | Some o => (o, false)
        | None => ((match t with MHistogram => hist_buckets_for d rule_ | _ => [] end,
                    match t with MSummary => summ_objs_for d rule_ | _ => [] end,
                    match t with MSummary => summ_max_age_for d rule_ | _ => 0%Z end), true)
        end in
      let st1 := {| f_claim := f_claim st; f_shape := f_shape st; f_series := f_series st;
                    f_created := if created then bump_created t (f_created st) else f_created st |} in
      if created && new_vec_panics t names then FPanic
      else if negb (forallb valid_string values) then FConflict st1
      else
        match new_child {| vc_names := names; vc_help := fam_help; vc_type := t; vc_bounds := fst (fst opts);
                           vc_objs := snd (fst opts); vc_max_age := snd opts; vc_children := [] |} with
        | Panic => FPanic
        | Ok zero =>
          apply {| f_claim := upd1 (f_claim st1) name (Some (t, fam_help));
                   f_shape := upd2 (f_shape st1) name names (Some opts);
                   f_series := f_series st1; f_created := f_created st1 |} zero
        end
  end.

(* the sweep (C07): exactly the series with a non-zero ttl whose last sample is older than it *)
Definition f_sweep (st : fstate) (now : Z) : fstate :=
  {| f_claim := f_claim st; f_shape := f_shape st;
     f_series := fun n ks vs =>
       match f_series st n ks vs with
       | Some s => if negb (fv_ttl s =? 0)%Z && (fv_last s + fv_ttl s <? now)%Z then None else Some s
       | None => None
       end;
     f_created := f_created st |}.

(* ---------- the two machines side by side ---------- *)
Inductive xop :=
| XEvent (d : defaults) (now : Z) (e : event) (mapped : option (rule * bytes * lmap))
| XSweep (now : Z).

Definition reg_step (x : exporter) (o : xop) : option exporter :=
  match o with
  | XEvent d now e mapped => match handle_event d now x e mapped with HOk x' => Some x' | HPanic => None end
  | XSweep now => Some {| x_registry := remove_stale (x_registry x) now; x_tel := x_tel x |}
  end.

Record fexporter := { fx_state : fstate; fx_tel : telemetry }.
Definition flat_step (x : fexporter) (o : xop) : option fexporter :=
  match o with
  | XEvent d now e mapped =>
    match classify d (fx_tel x) e mapped with
    | DDone tel => Some {| fx_state := fx_state x; fx_tel := tel |}
    | DUpdate tel1 t name labels help ttl rule_ upd =>
      match f_sample (fx_state x) d rule_ now t name labels help ttl upd with
      | FOk st => Some {| fx_state := st; fx_tel := tl_event tel1 (type_string (e_kind e)) |}
      | FConflict st => Some {| fx_state := st; fx_tel := tl_conflict tel1 (type_string (e_kind e)) name |}
      | FPanic => None
      end
    end
  | XSweep now => Some {| fx_state := f_sweep (fx_state x) now; fx_tel := fx_tel x |}
  end.

Fixpoint reg_run (x : exporter) (ops : list xop) : option exporter :=
  match ops with [] => Some x | o :: r => match reg_step x o with Some x' => reg_run x' r | None => None end end.
Fixpoint flat_run (x : fexporter) (ops : list xop) : option fexporter :=
  match ops with [] => Some x | o :: r => match flat_step x o with Some x' => flat_run x' r | None => None end end.

(* what the registry exposes for a series key *)
Definition reg_lookup (rg : registry) (name : bytes) (names values : list bytes)
  : option (mtype * bytes * mvalue * Z * Z) :=
  match name_find name (rg_names rg) with
  | None => None
  | Some rn =>
    match rm_find (names, values) (rn_metrics rn) with
    | None => None
    | Some rm =>
      match vecs_find names (rn_vecs rn) with
      | None => None
      | Some v =>
        match child_find values (vc_children v) with
        | Some val => Some (rn_type rn, vc_help v, val, rm_last rm, rm_ttl rm)
        | None => None
        end
      end
    end
  end.

Definition flat_lookup (st : fstate) (name : bytes) (names values : list bytes)
  : option (mtype * bytes * mvalue * Z * Z) :=
  match f_series st name names values, f_claim st name with
  | Some s, Some (t, h) => Some (t, h, fv_value s, fv_last s, fv_ttl s)
  | _, _ => None
  end.

Definition x0 : exporter := {| x_registry := empty_registry; x_tel := empty_telemetry |}.
Definition fx0 : fexporter := {| fx_state := f_empty; fx_tel := empty_telemetry |}.

(* C01 (exactly these series, these values, this help and type), C07, C08: after ANY sequence of
   events and sweeps the registry exposes, for every series key, exactly what the flat account
   says (none when it says none); the telemetry and the vectors-created gauge agree; and one
   panics iff the other does. *)
Definition stmt_registry_refines_flat : Prop := forall ops,
  match reg_run x0 ops, flat_run fx0 ops with
  | Some x, Some fx =>
    (forall name names values, reg_lookup (x_registry x) name names values = flat_lookup (fx_state fx) name names values) /\
    x_tel x = fx_tel fx /\ rg_created (x_registry x) = f_created (fx_state fx) /\
    (forall name, option_map (fun rn => (rn_type rn)) (name_find name (rg_names (x_registry x)))
                  = option_map fst (f_claim (fx_state fx) name))
  | None, None => True
  | _, _ => False
  end.

(* the scrape lists exactly the series of the lookup function, each once *)
Definition stmt_samples_are_lookups : Prop := forall ops x,
  reg_run x0 ops = Some x ->
  let smp := registry_samples (x_registry x) in
  (forall s, In s smp ->
     exists last ttl, reg_lookup (x_registry x) (sm_name s) (map fst (sm_labels s)) (map snd (sm_labels s))
                      = Some (sm_type s, sm_help s, sm_value s, last, ttl)) /\
  (forall name names values t h v last ttl,
     reg_lookup (x_registry x) name names values = Some (t, h, v, last, ttl) -> length names = length values ->
     In {| sm_name := name; sm_help := h; sm_type := t; sm_labels := combine names values; sm_value := v |} smp) /\
  no_dup_series smp = true.

(* ---------- C07 read off the flat account (definitional facts, stated for the record) ---------- *)
Definition stmt_sweep_exact : Prop := forall st now n ks vs,
  f_series (f_sweep st now) n ks vs =
  match f_series st n ks vs with
  | Some s => if negb (fv_ttl s =? 0)%Z && (fv_last s + fv_ttl s <? now)%Z then None else Some s
  | None => None
  end.

(* a sample that is applied restarts the clock and installs the ttl configured for it now;
   a series created by it starts from that sample alone *)
Definition stmt_sample_sets_clock : Prop := forall st d rule_ now t name labels help ttl upd st',
  f_sample st d rule_ now t name labels help ttl upd = FOk st' ->
  exists v, f_series st' name (lm_keys labels) (lm_vals labels) = Some {| fv_value := v; fv_last := now; fv_ttl := ttl |} /\
    (f_series st name (lm_keys labels) (lm_vals labels) = None ->
       exists zero vec, new_child vec = Ok zero /\ vc_type vec = t /\ upd zero = Ok v).

(* C07 over histories of sweeps (clock readings of successive one-second ticks, in any order) *)
Definition f_sweeps (st : fstate) (nows : list Z) : fstate := fold_left f_sweep nows st.

(* never earlier: as long as no sweep happens later than last sample + ttl - and always when the
   ttl is 0 - the series stays, with its value, clock and ttl unchanged *)
Definition stmt_not_before_ttl : Prop := forall st nows n ks vs s,
  f_series st n ks vs = Some s ->
  ((fv_ttl s = 0)%Z \/ Forall (fun now => (now <= fv_last s + fv_ttl s)%Z) nows) ->
  f_series (f_sweeps st nows) n ks vs = Some s.

(* once stale it is gone at the next sweep, and no later sweep brings it back *)
Definition stmt_gone_after_ttl : Prop := forall st now later n ks vs s,
  f_series st n ks vs = Some s -> (fv_ttl s <> 0)%Z -> (fv_last s + fv_ttl s < now)%Z ->
  f_series (f_sweeps st (now :: later)) n ks vs = None.

(* sweeps create nothing and leave the claims on names (type, help) alone *)
Definition stmt_sweeps_only_remove : Prop := forall st nows,
  f_claim (f_sweeps st nows) = f_claim st /\
  (forall n ks vs, f_series st n ks vs = None -> f_series (f_sweeps st nows) n ks vs = None).

(* C08 on the flat account: a conflict leaves claims, shapes and series untouched *)
Definition stmt_flat_conflict_isolated : Prop := forall st d rule_ now t name labels help ttl upd st',
  f_sample st d rule_ now t name labels help ttl upd = FConflict st' ->
  f_claim st' = f_claim st /\ f_shape st' = f_shape st /\ f_series st' = f_series st.
