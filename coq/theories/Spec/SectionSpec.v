(* Critical sections are not interleaved (the trace-level reading of [critical_section_exclusive]):
   in every executable trace of the reader/writer-lock semantics of Model/Concurrency.v,
   - between the step in which a thread opens an EXCLUSIVE section of a lock and the step in which
     it closes it, no other thread opens a section of that lock, in any mode;
   - between the step in which a thread opens a SHARED section and the step in which it closes
     it, no other thread opens an exclusive section of that lock.
   Together with the generated obligations of Properties/C14_locks.v (reload = one exclusive
   section, lookup = one shared section of the mapper's lock) this is: a lookup runs entirely
   before or entirely after a reload; with Properties/C16_locks.v: no producer appends or flushes
   between the timer's taking the pending batch and its handing it over. *)
From SE Require Export Model.Concurrency.
From Coq Require Import List.
Import ListNotations.
Open Scope list_scope.

Definition stmt_exclusive_section_uninterrupted : Prop :=
  forall (before mid after : list (thread * lact)) l t1 t2 e s,
  lrun [] (before ++ (t1, Acq l true) :: mid ++ (t2, Acq l e) :: after) = Some s ->
  t1 <> t2 ->
  In (t1, Rel l) mid.

Definition stmt_shared_section_no_writer : Prop :=
  forall (before mid after : list (thread * lact)) l t1 t2 s,
  lrun [] (before ++ (t1, Acq l false) :: mid ++ (t2, Acq l true) :: after) = Some s ->
  t1 <> t2 ->
  In (t1, Rel l) mid.
