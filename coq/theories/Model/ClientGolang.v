(* The part of github.com/prometheus/client_golang the exporter relies on (third-party code:
   MODELLED, not verified; validated against the real library by the pipeline engine on every
   run): counter/gauge/histogram/summary value semantics, MetricVec child lookup and Delete,
   constructor panics, and the consistency checks of Registry.Gather for unchecked collectors.
   Not modelled: summary quantile values, native-histogram fields, created timestamps, exemplars. *)
From SE Require Export Base.LMap Base.Float64 Base.Utf8.
From Coq Require Import ZArith.
From Flocq Require Import IEEE754.Binary IEEE754.Bits.

Inductive mtype := MCounter | MGauge | MSummary | MHistogram.
Definition mtype_eqb (a b : mtype) : bool :=
  match a, b with
  | MCounter, MCounter | MGauge, MGauge | MSummary, MSummary | MHistogram, MHistogram => true
  | _, _ => false
  end.

Inductive mvalue :=
| VCounter (ival : Z) (fval : F64)                      (* valInt (mod 2^64), valBits *)
| VGauge (v : F64)
| VHist (bounds : list F64) (counts : list N) (cnt : N) (sum : F64)
| VSumm (objs : list F64) (cnt : N) (sum : F64).

Definition two64 : Z := 18446744073709551616.

(* Go's uint64(v) on amd64 for the values that reach counter.Add (v >= 0 or NaN) *)
Definition f_to_uint64 (v : F64) : Z :=
  match v with
  | B754_nan _ _ _ _ _ => 0%Z
  | B754_infinity _ _ _ => 0%Z
  | _ => let z := Binary.Btrunc 53 1024 v in
         if (Z.leb 0 z && Z.ltb z two64)%bool then z else 0%Z
  end.

(* counter.Add: panics on a negative argument; integral values take the uint64 path (wraps) *)
Definition counter_add (c : mvalue) (v : F64) : res mvalue :=
  match c with
  | VCounter i f =>
    if f_ltb v f_zero then Panic
    else
      let iv := f_to_uint64 v in
      if f_eqb (f_of_Z iv) v then Ok (VCounter ((i + iv) mod two64) f)
      else Ok (VCounter i (f_add f v))
  | _ => Panic
  end.
Definition counter_value (i : Z) (f : F64) : F64 := f_add f (f_of_Z i).

Definition gauge_set (g : mvalue) (v : F64) : res mvalue :=
  match g with VGauge _ => Ok (VGauge v) | _ => Panic end.
Definition gauge_add (g : mvalue) (v : F64) : res mvalue :=
  match g with VGauge x => Ok (VGauge (f_add x v)) | _ => Panic end.

(* histogram.findBucket + observe on the classic buckets *)
Fixpoint bump_bucket (bounds : list F64) (counts : list N) (v : F64) : list N :=
  match bounds, counts with
  | b :: bs, c :: cs => if f_leb v b then N.succ c :: cs else c :: bump_bucket bs cs v
  | _, _ => counts
  end.
Definition observe (o : mvalue) (v : F64) : res mvalue :=
  match o with
  | VHist bounds counts cnt sum => Ok (VHist bounds (bump_bucket bounds counts v) (N.succ cnt) (f_add sum v))
  | VSumm objs cnt sum => Ok (VSumm objs (N.succ cnt) (f_add sum v))
  | _ => Panic
  end.

Definition f_is_pinf (x : F64) : bool := match x with B754_infinity _ _ false => true | _ => false end.
(* newHistogram: buckets strictly increasing or panic; a trailing +Inf bucket is dropped *)
Fixpoint hist_bounds (b : list F64) : res (list F64) :=
  match b with
  | [] => Ok []
  | [x] => if f_is_pinf x then Ok [] else Ok [x]
  | x :: ((y :: _) as r) =>
    if f_leb y x then Panic else (let! r' := hist_bounds r in Ok (x :: r'))
  end.

(* the objectives map: distinct quantile keys in increasing order *)
Fixpoint insert_obj (q : F64) (l : list F64) : list F64 :=
  match l with
  | [] => [q]
  | x :: r => if f_eqb q x then l else if f_ltb q x then q :: l else x :: insert_obj q r
  end.
Definition objectives_of (qs : list F64) : list F64 := fold_left (fun l q => insert_obj q l) qs [].

(* ---------- MetricVec ---------- *)
Record vec := {
  vc_names : list bytes;        (* variable label names, sorted (HashLabels sorts them) *)
  vc_help : bytes;
  vc_type : mtype;
  vc_bounds : list F64;         (* HistogramOpts.Buckets as given *)
  vc_objs : list F64;           (* summary objectives (keys) *)
  vc_max_age : Z;
  vc_children : list (list bytes * mvalue) }.

Fixpoint list_bytes_eqb' (a b : list bytes) : bool :=
  match a, b with
  | [], [] => true
  | x :: a', y :: b' => bytes_eqb x y && list_bytes_eqb' a' b'
  | _, _ => false
  end.

Fixpoint child_find (k : list bytes) (l : list (list bytes * mvalue)) : option mvalue :=
  match l with
  | [] => None
  | (k', v) :: r => if list_bytes_eqb' k k' then Some v else child_find k r
  end.
Fixpoint child_set (k : list bytes) (v : mvalue) (l : list (list bytes * mvalue)) : list (list bytes * mvalue) :=
  match l with
  | [] => [(k, v)]
  | (k', v') :: r => if list_bytes_eqb' k k' then (k, v) :: r else (k', v') :: child_set k v r
  end.
Fixpoint child_del (k : list bytes) (l : list (list bytes * mvalue)) : list (list bytes * mvalue) :=
  match l with
  | [] => []
  | (k', v') :: r => if list_bytes_eqb' k k' then r else (k', v') :: child_del k r
  end.

Definition s_le : bytes := [x6c; x65].
Definition s_quantile : bytes := [x71; x75; x61; x6e; x74; x69; x6c; x65].

(* the zero child a vector creates on first use; constructor panics included *)
Definition new_child (v : vec) : res mvalue :=
  match vc_type v with
  | MCounter => Ok (VCounter 0 f_zero)
  | MGauge => Ok (VGauge f_zero)
  | MHistogram =>
    if existsb (bytes_eqb s_le) (vc_names v) then Panic
    else let! b := hist_bounds (vc_bounds v) in Ok (VHist b (map (fun _ => 0%N) b) 0%N f_zero)
  | MSummary =>
    if existsb (bytes_eqb s_quantile) (vc_names v) then Panic
    else if (vc_max_age v <? 0)%Z then Panic
    else Ok (VSumm (vc_objs v) 0%N f_zero)
  end.

Inductive vres (A : Type) := VOk (a : A) | VErr | VPanic.
Arguments VOk {A} a. Arguments VErr {A}. Arguments VPanic {A}.

(* GetMetricWith(labels): labels has exactly the vector's label names (by construction here);
   a value that is not valid UTF-8 is an error.  Returns the vector with the child present. *)
Definition get_metric_with (v : vec) (labels : lmap) : vres vec :=
  if negb (forallb valid_string (lm_vals labels)) then VErr
  else
    match child_find (lm_vals labels) (vc_children v) with
    | Some _ => VOk v
    | None =>
      match new_child v with
      | Ok c => VOk {| vc_names := vc_names v; vc_help := vc_help v; vc_type := vc_type v;
                       vc_bounds := vc_bounds v; vc_objs := vc_objs v; vc_max_age := vc_max_age v;
                       vc_children := child_set (lm_vals labels) c (vc_children v) |}
      | Panic => VPanic
      end
    end.

(* Delete(labels): only when the label names are exactly the vector's *)
Definition vec_delete (v : vec) (labels : lmap) : vec :=
  if list_bytes_eqb' (lm_keys labels) (vc_names v) then
    {| vc_names := vc_names v; vc_help := vc_help v; vc_type := vc_type v; vc_bounds := vc_bounds v;
       vc_objs := vc_objs v; vc_max_age := vc_max_age v;
       vc_children := child_del (lm_vals labels) (vc_children v) |}
  else v.

Definition vec_update (v : vec) (k : list bytes) (f : mvalue -> res mvalue) : res vec :=
  match child_find k (vc_children v) with
  | None => Panic
  | Some c => let! c' := f c in
    Ok {| vc_names := vc_names v; vc_help := vc_help v; vc_type := vc_type v; vc_bounds := vc_bounds v;
          vc_objs := vc_objs v; vc_max_age := vc_max_age v; vc_children := child_set k c' (vc_children v) |}
  end.

(* NewSummaryVec panics right away when a label is called "quantile" *)
Definition new_vec_panics (t : mtype) (names : list bytes) : bool :=
  match t with MSummary => existsb (bytes_eqb s_quantile) names | _ => false end.

(* ---------- Gather ---------- *)
(* one collected sample: family name, help, type, label pairs, value *)
Record sample := { sm_name : bytes; sm_help : bytes; sm_type : mtype; sm_labels : list (bytes * bytes); sm_value : mvalue }.

Definition samples_of_vec (name : bytes) (v : vec) : list sample :=
  map (fun kv => {| sm_name := name; sm_help := vc_help v; sm_type := vc_type v;
                    sm_labels := combine (vc_names v) (fst kv); sm_value := snd kv |}) (vc_children v).

Definition reserved_prefix : bytes := [x5f; x5f].
(* checkLabelName under the UTF-8 validation scheme: valid UTF-8, non-empty, not "__"-prefixed *)
Definition label_name_valid (l : bytes) : bool :=
  match l with [] => false | _ => valid_string l && negb (has_prefix reserved_prefix l) end.
Definition metric_name_valid (n : bytes) : bool := match n with [] => false | _ => valid_string n end.

Definition s_count : bytes := [x5f;x63;x6f;x75;x6e;x74].
Definition s_sum : bytes := [x5f;x73;x75;x6d].
Definition s_bucket : bytes := [x5f;x62;x75;x63;x6b;x65;x74].

Fixpoint fam_type (name : bytes) (l : list sample) : option mtype :=
  match l with
  | [] => None
  | s :: r => if bytes_eqb (sm_name s) name then Some (sm_type s) else fam_type name r
  end.

Definition opt_some {A} (x : option A) : bool := match x with Some _ => true | None => false end.

(* checkSuffixCollisions, order-independent form *)
Definition suffix_collision (all : list sample) (s : sample) : bool :=
  let n := sm_name s in
  let base_is (suffix : bytes) (ok_summary : bool) :=
    if has_suffix suffix n then
      match fam_type (trim_suffix suffix n) all with
      | Some MHistogram => true
      | Some MSummary => ok_summary
      | _ => false
      end
    else false in
  base_is s_count true || base_is s_sum true || base_is s_bucket false ||
  match sm_type s with
  | MSummary => opt_some (fam_type (n ++ s_count) all) || opt_some (fam_type (n ++ s_sum) all)
  | MHistogram => opt_some (fam_type (n ++ s_count) all) || opt_some (fam_type (n ++ s_sum) all)
                  || opt_some (fam_type (n ++ s_bucket) all)
  | _ => false
  end.

Fixpoint sample_key_eqb (a b : list (bytes * bytes)) : bool :=
  match a, b with
  | [], [] => true
  | (k, v) :: a', (k', v') :: b' => bytes_eqb k k' && bytes_eqb v v' && sample_key_eqb a' b'
  | _, _ => false
  end.

Fixpoint has_dup_names (l : list (bytes * bytes)) : bool :=
  match l with
  | [] => false
  | (k, _) :: r => existsb (fun kv => bytes_eqb k (fst kv)) r || has_dup_names r
  end.

(* every check Registry.Gather applies to metrics of unchecked collectors, as a predicate on the
   whole collected set (the real checks run in collection order; each is symmetric) *)
Definition sample_ok (all : list sample) (s : sample) : bool :=
  metric_name_valid (sm_name s) &&
  forallb (fun kv => label_name_valid (fst kv) && valid_string (snd kv)) (sm_labels s) &&
  negb (has_dup_names (sm_labels s)) &&
  negb (match sm_type s with MSummary => existsb (fun kv => bytes_eqb (fst kv) s_quantile) (sm_labels s) | _ => false end) &&
  (* one help and one type per family *)
  forallb (fun o => negb (bytes_eqb (sm_name o) (sm_name s)) ||
                    (bytes_eqb (sm_help o) (sm_help s) && mtype_eqb (sm_type o) (sm_type s))) all &&
  negb (suffix_collision all s).

Fixpoint no_dup_series (l : list sample) : bool :=
  match l with
  | [] => true
  | s :: r => negb (existsb (fun o => bytes_eqb (sm_name o) (sm_name s) && sample_key_eqb (sm_labels o) (sm_labels s)) r)
              && no_dup_series r
  end.

Definition gather_ok (all : list sample) : bool := forallb (sample_ok all) all && no_dup_series all.
