(* regexp Regexp.Expand (Go standard library, modelled and validated by correspondence) and
   pkg/mapper/fsm/formatter.go after "fix: glob templates expand capture references like regex
   mappings do": Format lays the captures out as submatches 1..n of a match whose group 0 is
   unset and calls Expand.  Named groups are outside the model (a named reference expands to
   the empty string, which is what Expand does for a regex without named groups). *)
From SE Require Export Base.Strings Base.Utf8 Model.Escape.
From Coq Require Import ZArith.
Local Open Scope N_scope.

Definition c_dollar : byte := x24.
Definition c_lbrace : byte := x7b.
Definition c_rbrace : byte := x7d.

Section Expand.
(* unicode.IsLetter(r) || unicode.IsDigit(r) for non-ASCII runes: oracle *)
Variable uni_word : rune -> bool.

Definition word_rune (r : rune) : bool := if r <? 128 then is_legal_rune r else uni_word r.

(* number of bytes of the maximal prefix made of word runes *)
Fixpoint word_prefix (s : bytes) (skip : nat) : nat :=
  match s with
  | [] => 0%nat
  | b :: t =>
    match skip with
    | S k => S (word_prefix t k)
    | O => let '(r, w) := decode (b :: t) in
           if word_rune r then S (word_prefix t (w - 1)) else 0%nat
    end
  end.

(* the number in a group name: -1 unless all digits, < 10^8 before each step, no leading zero *)
Fixpoint name_num (name : bytes) (acc : Z) : Z :=
  match name with
  | [] => acc
  | b :: t =>
    if negb (is_digit_n (bN b)) || (100000000 <=? acc)%Z then (-1)%Z
    else name_num t (acc * 10 + (Z.of_N (bN b) - 48))%Z
  end.

Definition group_num (name : bytes) : Z :=
  match name with
  | b :: _ :: _ => if bN b =? 48 then (-1)%Z else name_num name 0
  | _ => name_num name 0
  end.

(* extract(str): str is what follows '$'.  Some (num, bytes consumed) or None (malformed) *)
Definition extract (str : bytes) : option (Z * nat) :=
  match str with
  | [] => None
  | b0 :: t0 =>
    let brace := beq b0 c_lbrace in
    let s1 := if brace then t0 else str in
    let i := word_prefix s1 0 in
    if (i =? 0)%nat then None
    else
      let name := firstn i s1 in
      if brace then
        match skipn i s1 with
        | c :: _ => if beq c c_rbrace then Some (group_num name, S (S i)) else None
        | [] => None
        end
      else Some (group_num name, i)
  end.

(* groups: text of submatch i, None when unset; index 0 is the whole match *)
Definition group_text (groups : list (option bytes)) (num : Z) : bytes :=
  if (num <? 0)%Z then []
  else match nth_error groups (Z.to_nat num) with Some (Some t) => t | _ => [] end.

Fixpoint expand_aux (groups : list (option bytes)) (s : bytes) (skip : nat) : bytes :=
  match s with
  | [] => []
  | b :: t =>
    match skip with
    | S k => expand_aux groups t k
    | O =>
      if negb (beq b c_dollar) then b :: expand_aux groups t 0
      else
        match t with
        | b1 :: _ =>
          if beq b1 c_dollar then c_dollar :: expand_aux groups t 1
          else match extract t with
               | None => c_dollar :: expand_aux groups t 0
               | Some (num, used) => group_text groups num ++ expand_aux groups t used
               end
        | [] => [c_dollar]
        end
    end
  end.

Definition expand (groups : list (option bytes)) (tpl : bytes) : bytes := expand_aux groups tpl 0.

(* TemplateFormatter: NewTemplateFormatter(template, captureCount).Format(captures) *)
Definition format (tpl : bytes) (capture_count : nat) (captures : list bytes) : bytes :=
  expand (None :: map Some (firstn capture_count captures)) tpl.
End Expand.
