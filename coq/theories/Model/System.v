(* The exporter pipeline as a state machine: main.go's wiring of line parser -> (event queue) ->
   Exporter.Listen -> registry, the TTL sweep under pkg/clock, config reload, and a scrape
   (Registry.Gather over everything registered).  One op = one deterministic step; the event
   queue only batches events (C16) and is not part of this machine. *)
From SE Require Export Model.Exporter.
From Coq Require Import ZArith.

Inductive op :=
| OpLine (l : bytes)          (* one StatsD line arrives and its events are handled *)
| OpAdvance (ns : Z)          (* the clock advances *)
| OpSweep                     (* the one-second ticker fires: RemoveStaleMetrics *)
| OpLoad (ast : config_ast)   (* (re)load of the mapping configuration *)
| OpGather.                   (* a scrape *)

Inductive out :=
| OutLine (panicked : bool)
| OutNone
| OutLoaded (e : option load_err)
| OutGather (ok : bool) (samples : list sample) (tel : telemetry) (created : list (mtype * N)).

Section System.
Variable pf : bytes -> F64 * bool.
Variable uni_word : rune -> bool.
Variable re_match : bytes -> bytes -> option (list (option bytes)).
Variable heur_bt : list bytes -> bool -> bool.
Variable re_compiles : bytes -> bool.
Variable CS : Type.
Variable c_get : CS -> bytes -> option (option mresult) * CS.
Variable c_add : CS -> bytes -> option mresult -> CS.
Variable c_reset : CS -> CS.
Variable builtins : list sample.      (* what the binary's own collectors contribute to a scrape *)

Record sys := { s_mapper : mapper CS; s_exp : exporter; s_now : Z; s_flags : flags }.

Definition init_sys (f : flags) (cache : option CS) (t0 : Z) : sys :=
  {| s_mapper := new_mapper CS cache;
     s_exp := {| x_registry := empty_registry; x_tel := empty_telemetry |};
     s_now := t0; s_flags := f |}.

Definition lookup_rule (m : mapper CS) (r : mresult) : option (rule * bytes * lmap) :=
  match nth_error (m_rules CS m) (mr_rule r) with
  | Some ru => Some (ru, mr_name r, mr_labels r)
  | None => None
  end.

(* Exporter.Listen's inner loop over one batch *)
Fixpoint handle_events (m : mapper CS) (x : exporter) (now : Z) (evs : list event)
  : mapper CS * exporter * bool :=
  match evs with
  | [] => (m, x, false)
  | e :: rest =>
    let '(r, m') := get_mapping uni_word re_match CS c_get c_add m (e_name e) (type_string (e_kind e)) in
    let mapped := match r with Some mr => lookup_rule m' mr | None => None end in
    match handle_event (m_defaults CS m') now x e mapped with
    | HOk x' => handle_events m' x' now rest
    | HPanic => (m', x, true)
    end
  end.

Definition step (s : sys) (o : op) : out * sys :=
  match o with
  | OpLine l =>
    match line_to_events pf (s_flags s) l with
    | Panic => (OutLine true, s)
    | Ok (evs, _) =>
      let '(m, x, p) := handle_events (s_mapper s) (s_exp s) (s_now s) evs in
      (OutLine p, {| s_mapper := m; s_exp := x; s_now := s_now s; s_flags := s_flags s |})
    end
  | OpAdvance ns => (OutNone, {| s_mapper := s_mapper s; s_exp := s_exp s; s_now := (s_now s + ns)%Z; s_flags := s_flags s |})
  | OpSweep =>
    (OutNone, {| s_mapper := s_mapper s;
                 s_exp := {| x_registry := remove_stale (x_registry (s_exp s)) (s_now s); x_tel := x_tel (s_exp s) |};
                 s_now := s_now s; s_flags := s_flags s |})
  | OpLoad ast =>
    let '(e, m) := init_from_yaml heur_bt CS c_reset re_compiles (s_mapper s) ast in
    (OutLoaded e, {| s_mapper := m; s_exp := s_exp s; s_now := s_now s; s_flags := s_flags s |})
  | OpGather =>
    let smp := registry_samples (x_registry (s_exp s)) in
    (OutGather (gather_ok (builtins ++ smp)) smp (x_tel (s_exp s)) (rg_created (x_registry (s_exp s))), s)
  end.

Fixpoint run (s : sys) (ops : list op) : list out :=
  match ops with
  | [] => []
  | o :: r => let '(out, s') := step s o in out :: run s' r
  end.
End System.
