(* pkg/listener/listener.go: framing of the three transports and the UDP packet queue.
   - HandlePacket (UDP and Unixgram): strings.Split(packet, "\n"), every piece is a line.
   - HandleConn (TCP): bufio.Reader.ReadLine with the default 4096-byte buffer (standard library,
     modelled): a line ends at "\n", one preceding "\r" is dropped, an unterminated non-empty tail
     at EOF is a line (its "\r" kept), a raw line of 4096 bytes or more ends the connection.
     ReadLine's result does not depend on how the stream is segmented (it refills until it sees
     the delimiter or the buffer is full); segmentation itself is outside the model and is
     exercised by the harness.
   - EnqueueUdpPacket / ProcessUdpPacketQueue: a bounded queue of datagram COPIES. *)
From SE Require Export Base.Strings.

Definition c_lf : byte := x0a.
Definition c_cr : byte := x0d.
Definition tcp_buf : nat := 4096.

(* ---------- datagrams ---------- *)
Definition packet_lines (p : bytes) : list bytes := split_byte c_lf p.

(* ---------- TCP ---------- *)
Definition strip_cr (rev_line : bytes) : bytes :=    (* the line is accumulated in reverse *)
  match rev_line with
  | b :: r => if beq b c_cr then rev r else rev rev_line
  | [] => []
  end.

(* scan the stream; [cur] is the current raw line reversed, [n] its length.
   Result: the lines delivered, and whether the connection was closed for a too-long line *)
Fixpoint tcp_scan (s : bytes) (cur : bytes) (n : nat) : list bytes * bool :=
  match s with
  | [] => (match cur with [] => [] | _ => [rev cur] end, false)
  | b :: t =>
    if beq b c_lf then
      let '(ls, closed) := tcp_scan t [] 0 in (strip_cr cur :: ls, closed)
    else if tcp_buf <=? S n then ([], true)       (* 4096 bytes and still no newline *)
    else tcp_scan t (b :: cur) (S n)
  end.

Definition tcp_lines (stream : bytes) : list bytes * bool := tcp_scan stream [] 0.

(* what a listener does with one line: count it, relay it when non-empty, parse it *)
Record line_effect := { le_line : bytes; le_relayed : bool }.
Definition effect_of (l : bytes) : line_effect :=
  {| le_line := l; le_relayed := match l with [] => false | _ => true end |}.

(* ---------- the UDP packet queue ---------- *)
Record pq := {
  pq_cap : nat;
  pq_queue : list bytes;        (* copies of datagrams, oldest first *)
  pq_packets : nat;             (* udp_packets_total *)
  pq_drops : nat;               (* udp_packet_drops_total *)
  pq_processed : list bytes     (* datagrams handed to HandlePacket, oldest first *) }.

Definition pq_new (cap : nat) : pq := {| pq_cap := cap; pq_queue := []; pq_packets := 0; pq_drops := 0; pq_processed := [] |}.

(* EnqueueUdpPacket: never blocks; a full queue drops the datagram *)
Definition pq_recv (q : pq) (d : bytes) : pq :=
  if length (pq_queue q) <? pq_cap q
  then {| pq_cap := pq_cap q; pq_queue := pq_queue q ++ [d]; pq_packets := S (pq_packets q); pq_drops := pq_drops q; pq_processed := pq_processed q |}
  else {| pq_cap := pq_cap q; pq_queue := pq_queue q; pq_packets := S (pq_packets q); pq_drops := S (pq_drops q); pq_processed := pq_processed q |}.

(* ProcessUdpPacketQueue takes the oldest datagram *)
Definition pq_process (q : pq) : pq :=
  match pq_queue q with
  | [] => q
  | d :: r => {| pq_cap := pq_cap q; pq_queue := r; pq_packets := pq_packets q; pq_drops := pq_drops q; pq_processed := pq_processed q ++ [d] |}
  end.

Inductive pqop := PRecv (d : bytes) | PProcess.
Definition pq_step (q : pq) (o : pqop) : pq := match o with PRecv d => pq_recv q d | PProcess => pq_process q end.
Definition pq_run (q : pq) (ops : list pqop) : pq := fold_left pq_step ops q.
