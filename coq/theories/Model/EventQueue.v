(* pkg/event/event.go: EventQueue (Queue, Flush, FlushUnlocked and the ticker goroutine) as a
   small-step transition system with any number of producers, a lock, a bounded channel and a
   consumer.  Events are opaque identifiers.  The critical sections are atomic w.r.t. the fields
   they protect: that every access to q happens under eq.m is the generated lock obligation
   (Generated/AccessTable.v, property C20); sync.Mutex / channel semantics are the Go memory
   model's (assumed).  An unbuffered channel (capacity 0) is treated as capacity 1: the sender
   may run ahead of the receiver by one batch, which changes no delivery order. *)
From Coq Require Export List Arith Lia Bool.
Export ListNotations.

Definition ev := nat.                       (* unique event identifier *)

(* a producer: the Queue(events) calls it still has to make, and its position in the current one *)
Inductive pphase :=
| PIdle                                     (* outside Queue *)
| PLocked (rest : list ev)                  (* inside Queue, holding the lock, events still to append *)
| PFlushing (rest : list ev).               (* inside FlushUnlocked, about to send eq.q on C *)

Record producer := { p_calls : list (list ev); p_phase : pphase }.

Inductive tphase := TIdle | TFlushing | TSent.   (* the ticker goroutine: idle / in Flush holding the lock *)

Record qstate := {
  q_threshold : nat;
  q_cap : nat;
  q_pending : list ev;                      (* eq.q *)
  q_chan : list (list ev);                  (* batches in eq.C, oldest first *)
  q_delivered : list (list ev);             (* batches the consumer has read, oldest first *)
  q_producers : list producer;
  q_ticker : tphase;
  q_log : list ev                           (* ghost: every event appended so far, in append order *) }.

Definition lock_free (s : qstate) : bool :=
  forallb (fun p => match p_phase p with PIdle => true | _ => false end) (q_producers s)
  && match q_ticker s with TIdle => true | _ => false end.

Definition room (s : qstate) : bool := length (q_chan s) <? Nat.max 1 (q_cap s).

Inductive label :=
| LAcquire (p : nat) | LAppend (p : nat) | LSend (p : nat) | LRelease (p : nat)
| LTickAcquire | LTickSend | LTickRelease
| LRecv.

Definition set_producer (s : qstate) (i : nat) (p : producer) : list producer :=
  firstn i (q_producers s) ++ p :: skipn (S i) (q_producers s).

Definition with_ (s : qstate) (pend : list ev) (ch del : list (list ev)) (ps : list producer) (t : tphase) (log : list ev) : qstate :=
  {| q_threshold := q_threshold s; q_cap := q_cap s; q_pending := pend; q_chan := ch; q_delivered := del;
     q_producers := ps; q_ticker := t; q_log := log |}.

(* one step; None = the label is not enabled in this state *)
Definition qstep (s : qstate) (l : label) : option qstate :=
  match l with
  | LAcquire i =>
    match nth_error (q_producers s) i with
    | Some {| p_calls := c :: cs; p_phase := PIdle |} =>
      if lock_free s
      then Some (with_ s (q_pending s) (q_chan s) (q_delivered s)
                       (set_producer s i {| p_calls := cs; p_phase := PLocked c |}) (q_ticker s) (q_log s))
      else None
    | _ => None
    end
  | LAppend i =>
    match nth_error (q_producers s) i with
    | Some {| p_calls := cs; p_phase := PLocked (e :: rest) |} =>
      let q' := q_pending s ++ [e] in
      Some (with_ s q' (q_chan s) (q_delivered s)
                  (set_producer s i {| p_calls := cs;
                                        p_phase := if q_threshold s <=? length q' then PFlushing rest else PLocked rest |})
                  (q_ticker s) (q_log s ++ [e]))
    | _ => None
    end
  | LSend i =>
    match nth_error (q_producers s) i with
    | Some {| p_calls := cs; p_phase := PFlushing rest |} =>
      if room s
      then Some (with_ s [] (q_chan s ++ [q_pending s]) (q_delivered s)
                       (set_producer s i {| p_calls := cs; p_phase := PLocked rest |}) (q_ticker s) (q_log s))
      else None
    | _ => None
    end
  | LRelease i =>
    match nth_error (q_producers s) i with
    | Some {| p_calls := cs; p_phase := PLocked [] |} =>
      Some (with_ s (q_pending s) (q_chan s) (q_delivered s)
                  (set_producer s i {| p_calls := cs; p_phase := PIdle |}) (q_ticker s) (q_log s))
    | _ => None
    end
  | LTickAcquire =>
    if lock_free s then Some (with_ s (q_pending s) (q_chan s) (q_delivered s) (q_producers s) TFlushing (q_log s)) else None
  | LTickSend =>
    match q_ticker s with
    | TFlushing => if room s then Some (with_ s [] (q_chan s ++ [q_pending s]) (q_delivered s) (q_producers s) TSent (q_log s)) else None
    | _ => None
    end
  | LTickRelease =>
    match q_ticker s with
    | TSent => Some (with_ s (q_pending s) (q_chan s) (q_delivered s) (q_producers s) TIdle (q_log s))
    | _ => None
    end
  | LRecv =>
    match q_chan s with
    | b :: r => Some (with_ s (q_pending s) r (q_delivered s ++ [b]) (q_producers s) (q_ticker s) (q_log s))
    | [] => None
    end
  end.

Definition qinit (threshold cap : nat) (programs : list (list (list ev))) : qstate :=
  {| q_threshold := threshold; q_cap := cap; q_pending := []; q_chan := []; q_delivered := [];
     q_producers := map (fun cs => {| p_calls := cs; p_phase := PIdle |}) programs;
     q_ticker := TIdle; q_log := [] |}.

(* a trace: only enabled labels are taken *)
Fixpoint qrun (s : qstate) (ls : list label) : option qstate :=
  match ls with
  | [] => Some s
  | l :: r => match qstep s l with Some s' => qrun s' r | None => None end
  end.

(* ---------- the deterministic schedules the harness drives (single producer 0) ---------- *)
(* Queue(events) run to completion, the consumer draining the channel whenever it is full *)
Fixpoint queue_labels (n : nat) : list label :=       (* n = number of events of the call *)
  match n with
  | O => [LRelease 0]
  | S k => LAppend 0 :: LSend 0 :: LRecv :: queue_labels k     (* LSend/LRecv are skipped when not enabled *)
  end.

Fixpoint run_skipping (s : qstate) (ls : list label) : qstate :=
  match ls with
  | [] => s
  | l :: r => match qstep s l with Some s' => run_skipping s' r | None => run_skipping s r end
  end.

Definition do_queue (s : qstate) (events : list ev) : qstate :=
  let s0 := with_ s (q_pending s) (q_chan s) (q_delivered s) [{| p_calls := [events]; p_phase := PIdle |}] (q_ticker s) (q_log s) in
  run_skipping s0 (LAcquire 0 :: queue_labels (length events)).

Definition do_tick (s : qstate) : qstate :=
  run_skipping s [LTickAcquire; LTickSend; LTickRelease; LRecv].
