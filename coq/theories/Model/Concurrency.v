(* C20 (and the atomicity assumptions of C14 and C16): a lock-set model of the goroutines.
   - Locks are reader/writer locks (sync.Mutex = always exclusive); [lstep] is their semantics.
   - [lockset_sound]: two access sites that share a lock which at least one of them holds
     exclusively can never be occupied by two different threads at the same time - in any trace.
   - The table of access sites (who touches which tracked field holding which locks) is
     GENERATED from /repo by tools/accessgen on every run (Generated/AccessTable.v); [check_table]
     is the finite check that every conflicting pair of sites of concurrently running roles
     satisfies the premise of [lockset_sound].
   The role map below (which entry function runs as which goroutine, and whether several
   instances can exist) is hand-written from main.go; every `go` statement the translator finds
   must be accounted for ([go_statements_covered]), otherwise the check fails closed. *)
From Coq Require Import List String Bool Arith Lia.
Import ListNotations.
Open Scope string_scope.

(* ---------- reader/writer lock semantics ---------- *)
Definition thread := nat.
Definition held := (string * thread * bool)%type.          (* lock, holder, exclusive? *)
Definition lstate := list held.

Inductive lact := Acq (l : string) (excl : bool) | Rel (l : string).

Definition compatible (l : string) (excl : bool) (h : held) : bool :=
  let '(l', _, e') := h in negb (String.eqb l l') || (negb excl && negb e').

Fixpoint release (l : string) (t : thread) (s : lstate) : option lstate :=
  match s with
  | [] => None
  | (l', t', e') :: r =>
    if String.eqb l l' && Nat.eqb t t' then Some r
    else match release l t r with Some r' => Some ((l', t', e') :: r') | None => None end
  end.

Definition lstep (s : lstate) (t : thread) (a : lact) : option lstate :=
  match a with
  | Acq l excl => if forallb (compatible l excl) s then Some ((l, t, excl) :: s) else None
  | Rel l => release l t s
  end.

Fixpoint lrun (s : lstate) (tr : list (thread * lact)) : option lstate :=
  match tr with
  | [] => Some s
  | (t, a) :: r => match lstep s t a with Some s' => lrun s' r | None => None end
  end.

(* thread t holds lock l, exclusively when [excl] is required *)
Definition holds (s : lstate) (t : thread) (req : string * bool) : Prop :=
  exists e, In (fst req, t, e) s /\ (snd req = true -> e = true).

(* invariant: an exclusive holder of a lock is its only holder *)
Definition lock_inv (s : lstate) : Prop :=
  forall i j l t1 e1 t2 e2, i <> j ->
    nth_error s i = Some (l, t1, e1) -> nth_error s j = Some (l, t2, e2) -> e1 = false /\ e2 = false.

Lemma compatible_spec l excl l' t' e' :
  compatible l excl (l', t', e') = true -> l = l' -> excl = false /\ e' = false.
Proof.
  unfold compatible. intros H ->. rewrite String.eqb_refl in H. cbn in H.
  destruct excl, e'; cbn in H; try discriminate. auto.
Qed.

Lemma lock_inv_acq s l t excl :
  lock_inv s -> forallb (compatible l excl) s = true -> lock_inv ((l, t, excl) :: s).
Proof.
  intros I F i j l0 t1 e1 t2 e2 Hij Hi Hj.
  rewrite forallb_forall in F.
  destruct i as [|i], j as [|j]; cbn in Hi, Hj.
  - congruence.
  - inversion Hi; subst. apply nth_error_In in Hj. apply F in Hj.
    destruct (compatible_spec _ _ _ _ _ Hj eq_refl). auto.
  - inversion Hj; subst. apply nth_error_In in Hi. apply F in Hi.
    destruct (compatible_spec _ _ _ _ _ Hi eq_refl). auto.
  - eapply (I i j); eauto.
Qed.

Lemma release_sub l t s s' : release l t s = Some s' ->
  exists k, forall i, nth_error s' i = nth_error s (if Nat.ltb i k then i else S i).
Proof.
  revert s'. induction s as [|[[l' t'] e'] r IH]; intros s' H; cbn in H; [discriminate|].
  destruct (String.eqb l l' && Nat.eqb t t').
  - inversion H; subst. exists 0. intros i. reflexivity.
  - destruct (release l t r) as [r'|] eqn:E; [|discriminate]. inversion H; subst.
    destruct (IH _ eq_refl) as [k Hk]. exists (S k). intros [|i]; [reflexivity|].
    cbn [nth_error]. rewrite Hk. change (Nat.ltb (S i) (S k)) with (Nat.ltb i k). destruct (Nat.ltb i k); reflexivity.
Qed.

Lemma lock_inv_rel s l t s' : lock_inv s -> release l t s = Some s' -> lock_inv s'.
Proof.
  intros I R. destruct (release_sub _ _ _ _ R) as [k Hk].
  intros i j l0 t1 e1 t2 e2 Hij Hi Hj. rewrite Hk in Hi, Hj.
  eapply (I _ _ l0 t1 e1 t2 e2); [|exact Hi|exact Hj].
  destruct (Nat.ltb_spec i k), (Nat.ltb_spec j k); lia.
Qed.

Lemma lock_inv_run tr : forall s s', lock_inv s -> lrun s tr = Some s' -> lock_inv s'.
Proof.
  induction tr as [|[t a] r IH]; intros s s' I H; cbn in H.
  - inversion H; subst; exact I.
  - destruct (lstep s t a) as [s1|] eqn:E; [|discriminate].
    apply (IH s1); [|exact H].
    destruct a as [l excl|l]; cbn in E.
    + destruct (forallb (compatible l excl) s) eqn:F; [|discriminate]. inversion E; subst.
      now apply lock_inv_acq.
    + eapply lock_inv_rel; eauto.
Qed.

Lemma lock_inv_nil : lock_inv [].
Proof. intros i j l t1 e1 t2 e2 _ H. destruct i; discriminate. Qed.

(* ---------- access sites ---------- *)
Definition site := (string * string * bool * list (string * bool))%type.   (* entry, location, write, locks *)
Definition s_entry (a : site) := fst (fst (fst a)).
Definition s_loc (a : site) := snd (fst (fst a)).
Definition s_write (a : site) := snd (fst a).
Definition s_locks (a : site) := snd a.

(* a common lock, held exclusively by at least one of the two *)
Definition common_lock (a b : site) : bool :=
  existsb (fun la => existsb (fun lb => String.eqb (fst la) (fst lb) && (snd la || snd lb)) (s_locks b)) (s_locks a).

(* THE theorem: sites protected by a common lock (one side exclusive) exclude each other in every
   reachable lock state, for any two different threads holding the sites' lock sets *)
Theorem lockset_sound : forall (a b : site) tr s t1 t2,
  common_lock a b = true -> lrun [] tr = Some s -> t1 <> t2 ->
  (forall r, In r (s_locks a) -> holds s t1 r) ->
  (forall r, In r (s_locks b) -> holds s t2 r) -> False.
Proof.
  intros a b tr s t1 t2 C R Ht Ha Hb.
  pose proof (lock_inv_run tr [] s lock_inv_nil R) as I.
  unfold common_lock in C. apply existsb_exists in C as [la [Ila C]].
  apply existsb_exists in C as [lb [Ilb C]].
  apply andb_true_iff in C as [E X]. apply String.eqb_eq in E.
  destruct (Ha _ Ila) as [e1 [In1 Req1]]. destruct (Hb _ Ilb) as [e2 [In2 Req2]].
  apply In_nth_error in In1 as [i Hi]. apply In_nth_error in In2 as [j Hj].
  rewrite <- E in Hj.
  assert (i <> j) by (intros ->; rewrite Hi in Hj; inversion Hj; congruence).
  destruct (I i j _ _ _ _ _ H Hi Hj) as [-> ->].
  apply orb_true_iff in X as [X|X]; [apply Req1 in X | apply Req2 in X]; discriminate.
Qed.

(* ---------- roles ---------- *)
(* entry function of a goroutine, can several instances run concurrently? *)
Definition roles : list (string * bool) := [
  ("pkg/exporter.Exporter.Listen", false);                          (* the exporter goroutine (events + TTL sweep) *)
  ("pkg/listener.StatsDUDPListener.Listen", false);
  ("pkg/listener.StatsDUDPListener.ProcessUdpPacketQueue", false);
  ("pkg/listener.StatsDTCPListener.Listen", false);
  ("pkg/listener.StatsDTCPListener.HandleConn", true);              (* one per TCP connection *)
  ("pkg/listener.StatsDUnixgramListener.Listen", false);
  ("pkg/event.NewEventQueue.func", false);                          (* the flush ticker *)
  ("pkg/relay.Relay.relayOutput", false);
  (".sighupConfigReloader", false);
  (".reloadConfig", true);                                          (* HTTP /-/reload handlers *)
  (".serveHTTP", true);                                             (* scrapes: client library only *)
  ("pkg/mappercache/lru.metricMapperLRUCache.trackCacheLength", true);
  ("pkg/mappercache/randomreplacement.metricMapperRRCache.trackCacheLength", true);
  (* the library interface: any number of callers *)
  ("pkg/mapper.MetricMapper.GetMapping", true);
  ("pkg/mapper.MetricMapper.GetDefaults", true);
  ("pkg/mapper.MetricMapper.InitFromYAMLString", true)
].

Fixpoint role_of (e : string) (l : list (string * bool)) : option bool :=
  match l with
  | [] => None
  | (e', m) :: r => if String.eqb e e' then Some m else role_of e r
  end.

(* may two sites be occupied by two different threads? different roles, or a multi-instance role *)
Definition concurrent (a b : site) : bool :=
  match role_of (s_entry a) roles, role_of (s_entry b) roles with
  | Some ma, Some mb => negb (String.eqb (s_entry a) (s_entry b)) || ma
  | _, _ => false
  end.

Definition conflict (a b : site) : bool :=
  String.eqb (s_loc a) (s_loc b) && (s_write a || s_write b) && concurrent a b.

Definition pair_ok (a b : site) : bool := negb (conflict a b) || common_lock a b.

Definition check_table (t : list site) : bool := forallb (fun a => forallb (pair_ok a) t) t.

Definition violations (t : list site) : list (site * site) :=
  flat_map (fun a => flat_map (fun b => if pair_ok a b then [] else [(a, b)]) t) t.

(* every goroutine body the translator found is a known role (fail closed on a new `go`) *)
Definition go_statements_covered (gos : list (string * string)) : bool :=
  forallb (fun g => match role_of (snd g) roles with Some _ => true | None => false end) gos.

(* the lock obligations other properties lean on: every access to the given locations in the
   given entry functions holds the given lock (exclusively for writes) *)
(* (sites of goroutine roles only: main.main's start-up section - configuration load, --debug.dump-fsm -
   runs before the first `go` statement and is ordered before every goroutine by it) *)
Definition locked (t : list site) (locs : list string) (lock : string) : bool :=
  forallb (fun a => match role_of (s_entry a) roles with None => true | Some _ => false end ||
                    negb (existsb (String.eqb (s_loc a)) locs) ||
                    existsb (fun l => String.eqb (fst l) lock && (snd l || negb (s_write a))) (s_locks a)) t.

(* ---------- critical sections (the atomicity C14 leans on) ---------- *)
(* An exclusive holder of a lock is alone on it: while a thread is inside a critical section it
   opened with Lock(), no other thread is inside any section (Lock or RLock) of the same lock. *)
Lemma In_nth_error {A} (x : A) l : In x l -> exists i, nth_error l i = Some x.
Proof.
  induction l as [|y l IH]; intros H; [destruct H|].
  destruct H as [->|H]; [exists 0; reflexivity|]. destruct (IH H) as [i Hi]. exists (S i). exact Hi.
Qed.

Lemma excl_holder_alone s l t1 t2 e :
  lock_inv s -> In (l, t1, true) s -> In (l, t2, e) s -> t1 = t2 /\ e = true.
Proof.
  intros Inv H1 H2. destruct (In_nth_error _ _ H1) as [i Hi]. destruct (In_nth_error _ _ H2) as [j Hj].
  destruct (Nat.eq_dec i j) as [->|Hne].
  - rewrite Hi in Hj. inversion Hj. auto.
  - destruct (Inv i j l t1 true t2 e Hne Hi Hj) as [K _]. discriminate.
Qed.

Theorem critical_section_exclusive : forall tr s l t1 t2 e,
  lrun [] tr = Some s -> In (l, t1, true) s -> In (l, t2, e) s -> t1 = t2.
Proof.
  intros tr s l t1 t2 e R H1 H2.
  destruct (excl_holder_alone s l t1 t2 e (lock_inv_run tr [] s lock_inv_nil R) H1 H2) as [K _]. exact K.
Qed.

(* sites with the critical sections they lie in: (lock, exclusive?, acquisition site), outermost first;
   generated next to the access table *)
Definition ssite := (string * string * bool * list (string * bool * string))%type.
Definition ss_entry (a : ssite) := fst (fst (fst a)).
Definition ss_loc (a : ssite) := snd (fst (fst a)).
Definition ss_write (a : ssite) := snd (fst a).
Definition ss_secs (a : ssite) := snd a.

Fixpoint section_of (lock : string) (l : list (string * bool * string)) : option (bool * string) :=
  match l with
  | [] => None
  | (n, e, id) :: r => if String.eqb n lock then Some (e, id) else section_of lock r
  end.

(* every site of entry function [entry] touching one of [locs] lies in ONE critical section of
   [lock] - the same acquisition -, opened exclusively when [excl]; there is at least one such
   site (fail closed when the function no longer touches them) *)
Definition one_section (t : list ssite) (entry : string) (locs : list string) (lock : string) (excl : bool) : bool :=
  let sites := filter (fun a => String.eqb (ss_entry a) entry && existsb (String.eqb (ss_loc a)) locs) t in
  match sites with
  | [] => false
  | a :: _ =>
    match section_of lock (ss_secs a) with
    | None => false
    | Some (_, id) =>
      forallb (fun b => match section_of lock (ss_secs b) with
                        | Some (e, id') => String.eqb id id' && (e || negb excl)
                        | None => false
                        end) sites
    end
  end.

(* writes to [locs] by goroutine roles happen inside a section of [lock] (any mode) *)
Definition writes_inside (t : list site) (locs : list string) (lock : string) : bool :=
  forallb (fun a => match role_of (s_entry a) roles with None => true | Some _ => false end ||
                    negb (existsb (String.eqb (s_loc a)) locs) || negb (s_write a) ||
                    existsb (fun l => String.eqb (fst l) lock) (s_locks a)) t.

Corollary check_table_sound : forall t a b tr s t1 t2,
  check_table t = true -> In a t -> In b t -> conflict a b = true ->
  lrun [] tr = Some s -> t1 <> t2 ->
  (forall r, In r (s_locks a) -> holds s t1 r) ->
  (forall r, In r (s_locks b) -> holds s t2 r) -> False.
Proof.
  intros t a b tr s t1 t2 C Ia Ib K R Ht Ha Hb.
  unfold check_table in C. rewrite forallb_forall in C. specialize (C a Ia).
  rewrite forallb_forall in C. specialize (C b Ib). unfold pair_ok in C.
  rewrite K in C. cbn in C. eapply lockset_sound; eauto.
Qed.

(* ---------- time dependence ---------- *)
(* The translator lists every call that makes a function's behaviour depend on time:
   (function, what it asks the clock) - package time's wall-clock functions, the repository's own
   pkg/clock, and I/O deadlines.  The Gallina models of the listeners, the parser, the mapper and
   its caches take no time input; the queue and the relay see time only as the tick of one ticker,
   the exporter loop as the tick of the sweep ticker, the registry as the value [now].  These
   predicates say that the source agrees with that shape. *)
Definition clock_row := (string * string)%type.

(* no function of the packages [pkgs] (prefixes of the function name) depends on time *)
Definition clock_free (t : list clock_row) (pkgs : list string) : bool :=
  forallb (fun r => negb (existsb (fun p => prefix p (fst r)) pkgs)) t.

(* functions of package [pkg] ask the clock nothing but [allowed] *)
Definition clock_only (t : list clock_row) (pkg : string) (allowed : list string) : bool :=
  forallb (fun r => negb (prefix pkg (fst r)) || existsb (String.eqb (snd r)) allowed) t.

Lemma clock_free_sound t pkgs : clock_free t pkgs = true ->
  forall f what p, In (f, what) t -> In p pkgs -> prefix p f = false.
Proof.
  intros H f what p Hin Hp. unfold clock_free in H. rewrite forallb_forall in H.
  specialize (H _ Hin). cbn [fst] in H. apply negb_true_iff in H.
  destruct (prefix p f) eqn:E; [|reflexivity].
  assert (X : existsb (fun p0 => prefix p0 f) pkgs = true) by (apply existsb_exists; exists p; auto).
  congruence.
Qed.

Lemma clock_only_sound t pkg allowed : clock_only t pkg allowed = true ->
  forall f what, In (f, what) t -> prefix pkg f = true -> In what allowed.
Proof.
  intros H f what Hin Hp. unfold clock_only in H. rewrite forallb_forall in H.
  specialize (H _ Hin). cbn [fst snd] in H. rewrite Hp in H. cbn in H.
  apply existsb_exists in H as (x & Hx & E). apply String.eqb_eq in E. now subst.
Qed.

(* ---------- identity by digest ---------- *)
(* The models identify series (names and values of the labels), cache entries (type and name) and
   metric names by their full strings.  The translator lists every call into a digest function
   (hash/*, crypto/*, third-party hashes): (function, callee).  [digest_only t allowed] says that
   the only such calls are the listed (function, callee) pairs. *)
Definition digest_only (t : list (string * string)) (allowed : list (string * string)) : bool :=
  forallb (fun r => existsb (fun a => String.eqb (fst a) (fst r) && String.eqb (snd a) (snd r)) allowed) t.

Lemma digest_only_sound t allowed : digest_only t allowed = true ->
  forall f callee, In (f, callee) t -> In (f, callee) allowed.
Proof.
  intros H f callee Hin. unfold digest_only in H. rewrite forallb_forall in H.
  specialize (H _ Hin). apply existsb_exists in H as ([f' c'] & Ha & E). cbn [fst snd] in E.
  apply andb_true_iff in E as [E1 E2]. apply String.eqb_eq in E1, E2. now subst.
Qed.

(* ---------- main's start-up section ---------- *)
(* main.main is not a goroutine role: what it touches before it has started a goroutine is ordered before everything that
   goroutine does by the `go` statement itself.  The translator lists main's accesses (its own and those of the functions it
   calls) together with the goroutine bodies main had ALREADY started when it got there; such an access must be protected
   like any other against what those goroutines touch. *)
Definition main_row := (string * bool * list (string * bool) * list string)%type.

Definition main_pair_ok (m : main_row) (b : site) : bool :=
  let '(loc, w, locks, after) := m in
  negb (existsb (String.eqb (s_entry b)) after) || negb (String.eqb (s_loc b) loc) || negb (w || s_write b)
  || common_lock ("main.main", loc, w, locks) b.

Definition main_ok (mt : list main_row) (t : list site) : bool :=
  forallb (fun m => forallb (main_pair_ok m) t) mt.

Lemma main_ok_sound mt t : main_ok mt t = true ->
  forall loc w locks after b, In (loc, w, locks, after) mt -> In b t ->
  In (s_entry b) after -> s_loc b = loc -> (w || s_write b) = true ->
  common_lock ("main.main", loc, w, locks) b = true.
Proof.
  intros H loc w locks after b Hm Hb Ha Hl Hw. unfold main_ok in H. rewrite forallb_forall in H.
  specialize (H _ Hm). rewrite forallb_forall in H. specialize (H _ Hb). unfold main_pair_ok in H.
  assert (E1 : existsb (String.eqb (s_entry b)) after = true).
  { apply existsb_exists. exists (s_entry b). split; [exact Ha | apply String.eqb_refl]. }
  rewrite E1, Hl, String.eqb_refl, Hw in H. exact H.
Qed.
