(* pkg/mapper: mapper.go (InitFromYAMLString from a decoded AST, GetMapping), mapping.go,
   mapper_defaults.go, the enum decoders (match.go, metric_type.go, observer.go, action.go) and
   mapper_cache.go's formatKey.  yaml.v2 decoding and regexp compile/match are oracles; native
   histogram options are not modelled. *)
From SE Require Export Base.LMap Base.Float64 Model.Template Model.Fsm.
From Coq Require Import ZArith.

(* ---------- decoded YAML (scalars of enum type still raw) ---------- *)
Record summ_ast := { sa_quantiles : option (list (F64 * F64)); sa_max_age : Z; sa_age_buckets : N; sa_buf_cap : N }.
Record hist_ast := { ha_buckets : option (list F64) }.

Record rule_ast := {
  ra_match : bytes; ra_name : bytes; ra_labels : list (bytes * bytes); ra_honor : bool;
  ra_observer_type : option bytes; ra_timer_type : option bytes;
  ra_legacy_buckets : option (list F64); ra_legacy_quantiles : option (list (F64 * F64));
  ra_match_type : option bytes; ra_help : bytes; ra_action : option bytes;
  ra_mmt : option bytes; ra_ttl : Z;
  ra_summary : option summ_ast; ra_hist : option hist_ast; ra_scale : option F64 }.

Record defaults_ast := {
  da_observer_type : option bytes; da_timer_type : option bytes; da_match_type : option bytes;
  da_disable_ordering : bool; da_ttl : Z;
  da_summary : summ_ast; da_hist : hist_ast;
  da_legacy_buckets : option (list F64); da_legacy_quantiles : option (list (F64 * F64)) }.

Inductive config_ast :=
| Unparsable                                   (* yaml.Unmarshal error (syntax / type error) *)
| Parsed (d : option defaults_ast) (rules : list rule_ast).

(* ---------- enums ---------- *)
Inductive obs_type := ObsDefault | ObsHistogram | ObsSummary.
Inductive load_err :=
| EYaml | EEnum | ELabelKey | ENoName | EBadName | EBadMatch | EBadRegex
| EBothQuantiles | EBothBuckets | EHistWithSummaryOpts | ESummWithHistOpts
| EBadBuckets | EBadSummary.
Inductive lres (A : Type) := LOk (a : A) | LErr (e : load_err).
Arguments LOk {A} a. Arguments LErr {A} e.
Definition lbind {A B} (r : lres A) (f : A -> lres B) : lres B :=
  match r with LOk a => f a | LErr e => LErr e end.
Notation "'let?' x ':=' r 'in' k" := (lbind r (fun x => k))
  (at level 200, x pattern, r at level 100, k at level 200).

Definition str (l : list byte) : bytes := l.
Definition s_counter := str [x63;x6f;x75;x6e;x74;x65;x72].
Definition s_gauge := str [x67;x61;x75;x67;x65].
Definition s_observer := str [x6f;x62;x73;x65;x72;x76;x65;x72].
Definition s_timer := str [x74;x69;x6d;x65;x72].
Definition s_glob := str [x67;x6c;x6f;x62].
Definition s_regex := str [x72;x65;x67;x65;x78].
Definition s_histogram := str [x68;x69;x73;x74;x6f;x67;x72;x61;x6d].
Definition s_summary := str [x73;x75;x6d;x6d;x61;x72;x79].
Definition s_map := str [x6d;x61;x70].
Definition s_drop := str [x64;x72;x6f;x70].

(* MetricType.UnmarshalYAML *)
Definition dec_metric_type (v : option bytes) : lres bytes :=
  match v with
  | None => LOk []
  | Some s => if bytes_eqb s s_counter then LOk s_counter else if bytes_eqb s s_gauge then LOk s_gauge
              else if bytes_eqb s s_observer || bytes_eqb s s_timer then LOk s_observer else LErr EEnum
  end.
(* MatchType.UnmarshalYAML: Some true = regex, Some false = glob, None = unset *)
Definition dec_match_type (v : option bytes) : lres (option bool) :=
  match v with
  | None => LOk None
  | Some s => if bytes_eqb s s_regex then LOk (Some true)
              else if bytes_eqb s s_glob || bytes_eqb s [] then LOk (Some false) else LErr EEnum
  end.
(* ObserverType.UnmarshalYAML *)
Definition dec_observer_type (v : option bytes) : lres obs_type :=
  match v with
  | None => LOk ObsDefault
  | Some s => if bytes_eqb s s_histogram then LOk ObsHistogram
              else if bytes_eqb s s_summary || bytes_eqb s [] then LOk ObsSummary else LErr EEnum
  end.
(* ActionType.UnmarshalYAML: true = drop *)
Definition dec_action (v : option bytes) : lres bool :=
  match v with
  | None => LOk false
  | Some s => if bytes_eqb s s_drop then LOk true
              else if bytes_eqb s s_map || bytes_eqb s [] then LOk false else LErr EEnum
  end.

(* ---------- the three load-time regular expressions as recognisers ---------- *)
Definition is_alpha_us (b : byte) : bool :=
  let n := bN b in ((97 <=? n) && (n <=? 122) || (65 <=? n) && (n <=? 90) || (n =? 95))%N.
Definition is_alnum_us (b : byte) : bool := is_alpha_us b || is_digit_n (bN b).
Definition is_alnum_us_dash (b : byte) : bool := is_alnum_us b || beq b x2d.

(* metricLineRE on the '.'-separated fields *)
Definition field_ok (first : bool) (f : bytes) : bool :=
  bytes_eqb f star ||
  match f with
  | b :: t => (if first then is_alpha_us b else is_alnum_us b) && forallb is_alnum_us_dash t
  | [] => false
  end.
Definition metric_line_ok (m : bytes) : bool :=
  match split_byte c_dot m with
  | f :: r => field_ok true f && forallb (field_ok false) r
  | [] => false
  end.

(* labelNameRE = ^[a-zA-Z_][a-zA-Z0-9_]+$ *)
Definition label_name_ok (k : bytes) : bool :=
  match k with b :: (_ :: _) as t => is_alpha_us b && forallb is_alnum_us t | _ => false end.

(* metricNameRE = ^([a-zA-Z_]|(\$\{?\d+\}?))([a-zA-Z0-9_]|(\$\{?\d+\}?))*$ as a small automaton
   (greedy on digits and on the optional closing brace, which loses no matches: a digit is also
   a name character and nothing else can consume a closing brace) *)
Inductive nmode := NFirst | NMid | NAfterDollar | NAfterBrace | NDigits.
Fixpoint name_re (s : bytes) (m : nmode) : bool :=
  match s with
  | [] => match m with NMid | NDigits => true | _ => false end
  | b :: t =>
    let dig := is_digit_n (bN b) in
    match m with
    | NFirst => if beq b c_dollar then name_re t NAfterDollar
                else if is_alpha_us b then name_re t NMid else false
    | NMid => if beq b c_dollar then name_re t NAfterDollar
              else if is_alnum_us b then name_re t NMid else false
    | NAfterDollar => if beq b c_lbrace then name_re t NAfterBrace
                      else if dig then name_re t NDigits else false
    | NAfterBrace => if dig then name_re t NDigits else false
    | NDigits => if dig then name_re t NDigits
                 else if beq b c_rbrace then name_re t NMid
                 else if beq b c_dollar then name_re t NAfterDollar
                 else if is_alnum_us b then name_re t NMid else false
    end
  end.
Definition metric_name_ok (s : bytes) : bool := name_re s NFirst.

(* ---------- loaded configuration ---------- *)
Record summ_opts := { so_quantiles : list (F64 * F64); so_quantiles_nil : bool;
                      so_max_age : Z; so_age_buckets : N; so_buf_cap : N }.
Record hist_opts := { ho_buckets : list F64 }.

Record rule := {
  ru_match : bytes; ru_name : bytes; ru_labels : list (bytes * bytes); ru_honor : bool;
  ru_observer : obs_type; ru_is_regex : bool; ru_help : bytes; ru_drop : bool;
  ru_mmt : bytes; ru_ttl : Z; ru_summary : option summ_opts; ru_hist : option hist_opts;
  ru_scale : option F64;
  ru_stars : nat  (* captureCount returned by AddState; 0 for regex rules *) }.

Record defaults := {
  df_observer : obs_type; df_disable_ordering : bool; df_ttl : Z;
  df_summary : summ_opts; df_buckets : list F64 }.

Record config := {
  cf_defaults : defaults; cf_rules : list rule;
  cf_do_fsm : bool; cf_do_regex : bool }.

Definition fb (z : Z) : F64 := f_of_bits z.
(* prometheus.DefBuckets *)
Definition def_buckets : list F64 :=
  map fb [4572414629676717179; 4576918229304087675; 4582862980812216730; 4587366580439587226;
          4591870180066957722; 4598175219545276416; 4602678819172646912; 4607182418800017408;
          4612811918334230528; 4617315517961601024; 4621819117588971520]%Z.
(* defaultQuantiles *)
Definition def_quantiles : list (F64 * F64) :=
  [(fb 4602678819172646912, fb 4587366580439587226);
   (fb 4606281698874543309, fb 4576918229304087675);
   (fb 4607092346807469998, fb 4562254508917369340)]%Z.

Definition opt_list_len {A} (o : option (list A)) : nat := match o with Some l => length l | None => 0 end.
Definition opt_is_some {A} (o : option A) : bool := match o with Some _ => true | None => false end.
Definition opt_list {A} (o : option (list A)) : list A := match o with Some l => l | None => [] end.

(* validateHistogramOptions / validateSummaryOptions *)
Fixpoint buckets_increasing (b : list F64) : bool :=
  match b with
  | x :: ((y :: _) as r) => f_ltb x y && buckets_increasing r
  | _ => true
  end.
Definition quantile_ok (q : F64) : bool := f_leb f_zero q && f_leb q f_one.
(* the client library divides max_age into age_buckets streams (5 when unset); a stream duration that
   rounds down to zero makes it spin forever at the first observation or scrape *)
Definition stream_ok (s : summ_opts) : bool :=
  let b := if (so_age_buckets s =? 0)%N then 5%Z else Z.of_N (so_age_buckets s) in
  (so_max_age s <=? 0)%Z || (0 <? so_max_age s / b)%Z.
Definition summary_ok (s : summ_opts) : bool :=
  forallb (fun qe => quantile_ok (fst qe)) (so_quantiles s) && ((0 <=? so_max_age s)%Z && stream_ok s).

(* MapperConfigDefaults.UnmarshalYAML + the defaulting at the top of InitFromYAMLString *)
Definition load_defaults (d : option defaults_ast) : lres (defaults * option bool) :=
  match d with
  | None =>
    LOk ({| df_observer := ObsDefault; df_disable_ordering := false; df_ttl := 0;
            df_summary := {| so_quantiles := def_quantiles; so_quantiles_nil := false; so_max_age := 0;
                             so_age_buckets := 0; so_buf_cap := 0 |};
            df_buckets := def_buckets |}, None)
  | Some a =>
    let? ot := dec_observer_type (da_observer_type a) in
    let? tty := dec_observer_type (da_timer_type a) in
    let? mt := dec_match_type (da_match_type a) in
    let ot' := match da_observer_type a with None => tty | Some _ => ot end in
    let s := da_summary a in
    (* deprecated top-level quantiles replace the whole summary options *)
    let so := if (opt_list_len (sa_quantiles s) =? 0)%nat && (0 <? opt_list_len (da_legacy_quantiles a))%nat
              then {| so_quantiles := opt_list (da_legacy_quantiles a); so_quantiles_nil := false;
                      so_max_age := 0; so_age_buckets := 0; so_buf_cap := 0 |}
              else {| so_quantiles := opt_list (sa_quantiles s); so_quantiles_nil := negb (opt_is_some (sa_quantiles s));
                      so_max_age := sa_max_age s; so_age_buckets := sa_age_buckets s; so_buf_cap := sa_buf_cap s |} in
    let bk := if (opt_list_len (ha_buckets (da_hist a)) =? 0)%nat && (0 <? opt_list_len (da_legacy_buckets a))%nat
              then opt_list (da_legacy_buckets a) else opt_list (ha_buckets (da_hist a)) in
    let bk' := match bk with [] => def_buckets | _ => bk end in
    let so' := match so_quantiles so with
               | [] => {| so_quantiles := def_quantiles; so_quantiles_nil := false; so_max_age := so_max_age so;
                          so_age_buckets := so_age_buckets so; so_buf_cap := so_buf_cap so |}
               | _ => so end in
    LOk ({| df_observer := ot'; df_disable_ordering := da_disable_ordering a; df_ttl := da_ttl a;
            df_summary := so'; df_buckets := bk' |}, mt)
  end.

Section Load.
Variable re_compiles : bytes -> bool.      (* regexp.Compile succeeds *)

Definition count_stars (fields : list bytes) : nat := length (filter (fun f => bytes_eqb f star) fields).

Definition summ_of_ast (s : summ_ast) : summ_opts :=
  {| so_quantiles := opt_list (sa_quantiles s); so_quantiles_nil := negb (opt_is_some (sa_quantiles s));
     so_max_age := sa_max_age s; so_age_buckets := sa_age_buckets s; so_buf_cap := sa_buf_cap s |}.

(* one iteration of the loop over n.Mappings; (rule, is glob) *)
Definition load_rule (d : defaults) (dmt : option bool) (a : rule_ast) : lres rule :=
  (* MetricMapping.UnmarshalYAML: enum decoding happens while parsing *)
  let? ot0 := dec_observer_type (ra_observer_type a) in
  let? tty := dec_observer_type (ra_timer_type a) in
  let? mt := dec_match_type (ra_match_type a) in
  let? act := dec_action (ra_action a) in
  let? mmt := dec_metric_type (ra_mmt a) in
  let ot1 := match ra_observer_type a with None => tty | Some _ => ot0 end in
  if negb (forallb (fun kv => label_name_ok (fst kv)) (ra_labels a)) then LErr ELabelKey
  else match ra_name a with [] => LErr ENoName | _ =>
  if negb (metric_name_ok (ra_name a)) then LErr EBadName
  else
    let is_regex := match mt with Some b => b | None => match dmt with Some b => b | None => false end end in
    let? stars :=
      (if is_regex then (if re_compiles (ra_match a) then LOk 0%nat else LErr EBadRegex)
       else if metric_line_ok (ra_match a) then LOk (count_stars (split_byte c_dot (ra_match a)))
       else LErr EBadMatch) in
    let ot := match ot1 with ObsDefault => df_observer d | _ => ot1 end in
    let so_q_set := match ra_summary a with Some s => opt_is_some (sa_quantiles s) | None => false end in
    let ho_b_set := match ra_hist a with Some h => opt_is_some (ha_buckets h) | None => false end in
    if opt_is_some (ra_summary a) && opt_is_some (ra_legacy_quantiles a) && so_q_set then LErr EBothQuantiles
    else if opt_is_some (ra_hist a) && opt_is_some (ra_legacy_buckets a) && ho_b_set then LErr EBothBuckets
    else
      let? hs :=
        (match ot with
         | ObsHistogram =>
           if opt_is_some (ra_summary a) then LErr EHistWithSummaryOpts
           else
             let b0 := match ra_hist a with Some h => opt_list (ha_buckets h) | None => [] end in
             let b1 := match opt_list (ra_legacy_buckets a) with [] => b0 | l => l end in
             let b2 := match b1 with [] => df_buckets d | _ => b1 end in
             LOk (Some {| ho_buckets := b2 |}, option_map summ_of_ast (ra_summary a))
         | ObsSummary =>
           if opt_is_some (ra_hist a) then LErr ESummWithHistOpts
           else
             let s0 := match ra_summary a with Some s => summ_of_ast s
                       | None => {| so_quantiles := []; so_quantiles_nil := true; so_max_age := 0;
                                    so_age_buckets := 0; so_buf_cap := 0 |} end in
             let q1 := match opt_list (ra_legacy_quantiles a) with [] => so_quantiles s0 | l => l end in
             let q2 := match q1 with [] => so_quantiles (df_summary d) | _ => q1 end in
             let ds := df_summary d in
             LOk (option_map (fun h => {| ho_buckets := opt_list (ha_buckets h) |}) (ra_hist a),
                  Some {| so_quantiles := q2; so_quantiles_nil := false;
                          so_max_age := if (so_max_age s0 =? 0)%Z then so_max_age ds else so_max_age s0;
                          so_age_buckets := if (so_age_buckets s0 =? 0)%N then so_age_buckets ds else so_age_buckets s0;
                          so_buf_cap := if (so_buf_cap s0 =? 0)%N then so_buf_cap ds else so_buf_cap s0 |})
         | ObsDefault =>
           LOk (option_map (fun h => {| ho_buckets := opt_list (ha_buckets h) |}) (ra_hist a),
                option_map summ_of_ast (ra_summary a))
         end) in
      if negb (match fst hs with Some h => buckets_increasing (ho_buckets h) | None => true end) then LErr EBadBuckets
      else if negb (match snd hs with Some s => summary_ok s | None => true end) then LErr EBadSummary
      else
      let ttl := if (ra_ttl a =? 0)%Z && (0 <? df_ttl d)%Z then df_ttl d else ra_ttl a in
      LOk {| ru_match := ra_match a; ru_name := ra_name a; ru_labels := ra_labels a; ru_honor := ra_honor a;
             ru_observer := ot; ru_is_regex := is_regex; ru_help := ra_help a; ru_drop := act;
             ru_mmt := mmt; ru_ttl := ttl; ru_summary := snd hs; ru_hist := fst hs;
             ru_scale := ra_scale a; ru_stars := stars |}
  end.

Fixpoint load_rules (d : defaults) (dmt : option bool) (l : list rule_ast) : lres (list rule) :=
  match l with
  | [] => LOk []
  | a :: r => let? x := load_rule d dmt a in let? xs := load_rules d dmt r in LOk (x :: xs)
  end.

(* the part of InitFromYAMLString before the lock: build [n] or fail *)
Definition load (ast : config_ast) : lres config :=
  match ast with
  | Unparsable => LErr EYaml
  | Parsed d rules =>
    let? dd := load_defaults d in
    (* yaml.Unmarshal decodes every enum of every rule before any validation runs *)
    let? _ := (if forallb (fun a =>
                 match dec_observer_type (ra_observer_type a), dec_observer_type (ra_timer_type a),
                       dec_match_type (ra_match_type a), dec_action (ra_action a), dec_metric_type (ra_mmt a) with
                 | LOk _, LOk _, LOk _, LOk _, LOk _ => true
                 | _, _, _, _, _ => false end) rules then LOk tt else LErr EEnum) in
    let? _ := (if negb (buckets_increasing (df_buckets (fst dd))) then LErr EBadBuckets
               else if negb (summary_ok (df_summary (fst dd))) then LErr EBadSummary else LOk tt) in
    let? rs := load_rules (fst dd) (snd dd) rules in
    LOk {| cf_defaults := fst dd; cf_rules := rs;
           cf_do_fsm := existsb (fun r => negb (ru_is_regex r)) rs;
           cf_do_regex := existsb ru_is_regex rs |}
  end.
End Load.

(* ---------- the mapper object ---------- *)
Definition glob_rules_of (rs : list rule) : list grule :=
  let fix go (rs : list rule) (prio : nat) : list grule :=
    match rs with
    | [] => []
    | r :: t => if ru_is_regex r then go t prio
                else {| g_prio := prio; g_fields := split_byte c_dot (ru_match r); g_mmt := ru_mmt r |} :: go t (S prio)
    end in go rs 0%nat.

Definition nth_glob_rule (rs : list rule) (prio : nat) : option (nat * rule) :=
  let fix go (rs : list rule) (idx prio : nat) : option (nat * rule) :=
    match rs with
    | [] => None
    | r :: t => if ru_is_regex r then go t (S idx) prio
                else match prio with O => Some (idx, r) | S p => go t (S idx) p end
    end in go rs 0%nat prio.

(* what a lookup answers: rule index, formatted name, labels *)
Record mresult := { mr_rule : nat; mr_name : bytes; mr_labels : lmap }.

Record fsm_state := { fs_rules : list grule; fs_ordering_disabled : bool; fs_bt : bool }.

Section Lookup.
Variable uni_word : rune -> bool.
Variable re_match : bytes -> bytes -> option (list (option bytes)).  (* FindStringSubmatch groups *)
Variable heur_bt : list bytes -> bool -> bool.   (* the legacy part of TestIfNeedBacktracking *)

Definition build_fsm (c : config) : fsm_state :=
  let gr := glob_rules_of (cf_rules c) in
  let dis := df_disable_ordering (cf_defaults c) in
  {| fs_rules := gr; fs_ordering_disabled := dis;
     fs_bt := negb dis || heur_bt (map ru_match (filter (fun r => negb (ru_is_regex r)) (cf_rules c))) dis
              || has_ambiguous_wildcard (map g_fields gr) |}.

Definition labels_of (f : bytes -> bytes) (ls : list (bytes * bytes)) : lmap :=
  fold_left (fun m kv => lm_set (fst kv) (f (snd kv)) m) ls [].

(* the regex loop of GetMapping *)
Fixpoint regex_lookup (rs : list rule) (idx : nat) (metric ty : bytes) : option mresult :=
  match rs with
  | [] => None
  | r :: t =>
    if negb (ru_is_regex r) then regex_lookup t (S idx) metric ty
    else match re_match (ru_match r) metric with
         | None => regex_lookup t (S idx) metric ty
         | Some groups =>
           if match ru_mmt r with [] => false | mt => negb (bytes_eqb mt ty) end
           then regex_lookup t (S idx) metric ty
           else Some {| mr_rule := idx; mr_name := expand uni_word groups (ru_name r);
                        mr_labels := labels_of (expand uni_word groups) (ru_labels r) |}
         end
  end.

(* GetMapping without the cache: [rules] are m.Mappings, [fsm] is m.FSM (possibly stale) *)
Definition lookup_uncached (rules : list rule) (fsm : fsm_state) (do_fsm do_regex : bool)
           (metric ty : bytes) : option mresult :=
  let glob :=
    if do_fsm then
      match fsm_get_mapping (fs_rules fsm) (fs_bt fsm) (fs_ordering_disabled fsm) metric ty with
      | Some (prio, caps) =>
        match nth_glob_rule rules prio with
        | Some (idx, r) =>
          Some (Some {| mr_rule := idx; mr_name := format uni_word (ru_name r) (ru_stars r) caps;
                        mr_labels := labels_of (fun v => format uni_word v (ru_stars r) caps) (ru_labels r) |})
        | None => Some None       (* unreachable: the FSM was built from these rules *)
        end
      | None => if do_regex then None else Some None
      end
    else None in
  match glob with
  | Some answer => answer
  | None => regex_lookup rules 0 metric ty
  end.

(* ---------- the mapper with its cache ---------- *)
Variable CS : Type.                               (* cache state *)
Variable c_get : CS -> bytes -> option (option mresult) * CS.
Variable c_add : CS -> bytes -> option mresult -> CS.
Variable c_reset : CS -> CS.

Record mapper := {
  m_defaults : defaults; m_rules : list rule; m_fsm : fsm_state;
  m_do_fsm : bool; m_do_regex : bool; m_cache : option CS }.

Definition format_key (metric ty : bytes) : bytes := ty ++ c_dot :: metric.

Definition get_mapping (m : mapper) (metric ty : bytes) : option mresult * mapper :=
  let miss := fun (cs : option CS) =>
    let r := lookup_uncached (m_rules m) (m_fsm m) (m_do_fsm m) (m_do_regex m) metric ty in
    (r, {| m_defaults := m_defaults m; m_rules := m_rules m; m_fsm := m_fsm m; m_do_fsm := m_do_fsm m;
           m_do_regex := m_do_regex m;
           m_cache := option_map (fun s => c_add s (format_key metric ty) r) cs |}) in
  match m_cache m with
  | None => miss None
  | Some s =>
    match c_get s (format_key metric ty) with
    | (Some r, s') => (r, {| m_defaults := m_defaults m; m_rules := m_rules m; m_fsm := m_fsm m;
                             m_do_fsm := m_do_fsm m; m_do_regex := m_do_regex m; m_cache := Some s' |})
    | (None, s') => miss (Some s')
    end
  end.

(* the locked tail of InitFromYAMLString *)
Definition install (m : mapper) (n : config) : mapper :=
  {| m_defaults := cf_defaults n; m_rules := cf_rules n;
     m_fsm := if cf_do_fsm n then build_fsm n else m_fsm m;
     m_do_fsm := cf_do_fsm n;
     m_do_regex := if cf_do_fsm n then cf_do_regex n else m_do_regex m;
     m_cache := option_map c_reset (m_cache m) |}.

Variable re_compiles : bytes -> bool.

Definition init_from_yaml (m : mapper) (ast : config_ast) : option load_err * mapper :=
  match load re_compiles ast with
  | LErr e => (Some e, m)
  | LOk n => (None, install m n)
  end.

Definition empty_fsm : fsm_state := {| fs_rules := []; fs_ordering_disabled := false; fs_bt := false |}.
Definition zero_defaults : defaults :=
  {| df_observer := ObsDefault; df_disable_ordering := false; df_ttl := 0;
     df_summary := {| so_quantiles := []; so_quantiles_nil := true; so_max_age := 0; so_age_buckets := 0; so_buf_cap := 0 |};
     df_buckets := [] |}.
(* &MetricMapper{} with an optional cache *)
Definition new_mapper (cache : option CS) : mapper :=
  {| m_defaults := zero_defaults; m_rules := []; m_fsm := empty_fsm; m_do_fsm := false;
     m_do_regex := false; m_cache := cache |}.
End Lookup.
