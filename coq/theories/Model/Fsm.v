(* pkg/mapper/fsm/fsm.go: AddState and GetMapping, after the three FSM fixes.
   The trie is represented by its denotation: a state is the list of rules passing through it,
   each with its priority (index among glob rules) and the fields it still expects.  A state's
   transitions, Result, ResultPriority and min/maxRemainingLength are functions of that list
   (AddState: Result/priority set once by the first rule ending in the state; min/max folded over
   every rule through it).  The search mirrors GetMapping's loop: literal transition first, the
   "*" alternative pushed when backtracking is on, depth-first order of final states. *)
From SE Require Export Base.Strings.

Definition c_dot : byte := x2e.
Definition star : bytes := [x2a].

Definition vnode := list (nat * list bytes).

Definition step_field (n : vnode) (f : bytes) : vnode :=
  flat_map (fun pr => match snd pr with
                      | x :: r => if bytes_eqb x f then [(fst pr, r)] else []
                      | [] => [] end) n.

Definition has_transitions (n : vnode) : bool :=
  existsb (fun pr => match snd pr with [] => false | _ => true end) n.

(* Result / ResultPriority: the first rule that ends here *)
Fixpoint node_result (n : vnode) : option nat :=
  match n with
  | [] => None
  | (p, []) :: _ => Some p
  | _ :: r => node_result r
  end.

Definition min_rem (n : vnode) : nat := fold_right (fun pr m => Nat.min (length (snd pr)) m) (match n with pr :: _ => length (snd pr) | [] => 0 end) n.
Definition max_rem (n : vnode) : nat := fold_right (fun pr m => Nat.max (length (snd pr)) m) 0 n.

(* the state exists and the remaining length is within its bounds *)
Definition fits (n : vnode) (left : nat) : bool :=
  match n with [] => false | _ => (min_rem n <=? left) && (left <=? max_rem n) end.

(* final states reached for [fields] from state n, in the order the Go loop reaches them,
   with the captures along the path *)
Fixpoint search (bt : bool) (n : vnode) (fields : list bytes) (caps : list bytes)
  : list (nat * list bytes) :=
  match fields with
  | [] => []
  | f :: rest =>
    if negb (has_transitions n) then []
    else
      let left := length rest in
      let lit := if bytes_eqb f star then [] else step_field n f in
      let st := step_field n star in
      let visit := fun (child : vnode) (caps' : list bytes) =>
        match rest with
        | [] => match node_result child with Some p => [(p, rev caps')] | None => [] end
        | _ => search bt child rest caps'
        end in
      if fits lit left then
        visit lit caps ++ (if bt && fits st left then visit st (f :: caps) else [])
      else if fits st left then visit st (f :: caps)
      else []
  end.

(* ordered: the hit with the least priority (first reached among equals); unordered: the first *)
Fixpoint best_hit (hits : list (nat * list bytes)) (cur : option (nat * list bytes)) : option (nat * list bytes) :=
  match hits with
  | [] => cur
  | h :: r => match cur with
              | None => best_hit r (Some h)
              | Some c => if fst h <? fst c then best_hit r (Some h) else best_hit r cur
              end
  end.

Definition pick (ordering_disabled : bool) (hits : list (nat * list bytes)) : option (nat * list bytes) :=
  if ordering_disabled then hd_error hits else best_hit hits None.

(* glob rules visible from a type root: (priority, match fields, match_metric_type) *)
Record grule := { g_prio : nat; g_fields : list bytes; g_mmt : bytes (* empty = all types *) }.

Definition root_node (rules : list grule) (ty : bytes) : vnode :=
  flat_map (fun g => if match g_mmt g with [] => true | _ => bytes_eqb (g_mmt g) ty end
                     then [(g_prio g, g_fields g)] else []) rules.

Definition fsm_get_mapping (rules : list grule) (bt ordering_disabled : bool) (metric ty : bytes)
  : option (nat * list bytes) :=
  pick ordering_disabled (search bt (root_node rules ty) (split_byte c_dot metric) []).

(* hasAmbiguousWildcard: two rules share their fields up to a position where one has "*" and
   the other a literal *)
Fixpoint prefixes_of (fields : list bytes) (pre : list bytes) : list (list bytes * bool) :=
  match fields with
  | [] => []
  | f :: r => (pre, bytes_eqb f star) :: prefixes_of r (pre ++ [f])
  end.

Fixpoint list_bytes_eqb (a b : list bytes) : bool :=
  match a, b with
  | [], [] => true
  | x :: a', y :: b' => bytes_eqb x y && list_bytes_eqb a' b'
  | _, _ => false
  end.

Definition has_ambiguous_wildcard (matches : list (list bytes)) : bool :=
  let ps := flat_map (fun m => prefixes_of m []) matches in
  existsb (fun p => snd p && existsb (fun q => negb (snd q) && list_bytes_eqb (fst p) (fst q)) ps) ps.
