(* pkg/line/line.go: buildEvent, parseTag, parseNameTags, ParseDogStatsDTags, parseNameAndTags,
   LineToEvents, with all telemetry counters.  strconv.ParseFloat is an oracle [pf] (value AND
   error flag: the code keeps using the value after a sampling-factor error).
   Mirrors the code after "fix: SignalFX brackets out of order". *)
From SE Require Export Base.LMap Base.Float64 Base.Utf8 Spec.EscapeSpec.
From Coq Require Import ZArith.

Record flags := { f_dog : bool; f_influx : bool; f_librato : bool; f_signalfx : bool }.

Inductive reason :=
| MalformedLine | MixedTagging | NotEnoughParts | InvalidExtAgg
| MalformedComponent | MalformedValue | InvalidSampleFactor | IllegalEvent.

(* telemetry increments, in program order *)
Inductive tick := TSample | TTagErr | TTagsRecv | TErr (r : reason).

Inductive ev_kind := KCounter | KGauge (relative : bool) | KObserver.

Record event := { e_kind : ev_kind; e_name : bytes; e_value : F64; e_labels : lmap }.

Definition c_colon : byte := x3a.   Definition c_pipe : byte := x7c.
Definition c_comma : byte := x2c.   Definition c_hash : byte := x23.
Definition c_eq : byte := x3d.      Definition c_at : byte := x40.
Definition c_lbr : byte := x5b.     Definition c_rbr : byte := x5d.
Definition c_plus : byte := x2b.    Definition c_minus : byte := x2d.

(* EscapeMetricName never panics and equals escape_spec (theorem C15_escape_total_correct) *)
Definition esc (k : bytes) : bytes := escape_spec k.

(* parseTag *)
Definition parse_tag (tag : bytes) (sep : byte) (labels : lmap) : lmap * list tick :=
  match tag with
  | [] => (labels, [TTagErr])
  | _ =>
    match index_byte sep tag with
    | Some i =>
      let k := firstn i tag in
      let v := skipn (S i) tag in
      match k, v with
      | [], _ | _, [] => (labels, [TTagErr])
      | _, _ => (lm_set (esc k) v labels, [])
      end
    | None => (labels, [TTagErr])
    end
  end.

Definition trim_left_hash (s : bytes) : bytes :=
  match s with b :: t => if beq b c_hash then t else s | [] => s end.

(* the comma loop shared by parseNameTags and ParseDogStatsDTags: every comma-terminated piece is
   a tag; the rest after the last comma is a tag only when non-empty *)
Fixpoint parse_tag_list (pre : bytes -> bytes) (sep : byte) (pieces : list bytes) (labels : lmap)
  : lmap * list tick :=
  match pieces with
  | [] => (labels, [])
  | [last] => match last with [] => (labels, []) | _ => parse_tag (pre last) sep labels end
  | p :: rest =>
    let '(l1, t1) := parse_tag (pre p) sep labels in
    let '(l2, t2) := parse_tag_list pre sep rest l1 in (l2, t1 ++ t2)
  end.

Definition parse_name_tags (component : bytes) (labels : lmap) : lmap * list tick :=
  parse_tag_list (fun x => x) c_eq (split_byte c_comma component) labels.

Definition parse_dogstatsd_tags (f : flags) (component : bytes) (labels : lmap) : lmap * list tick :=
  if f_dog f then parse_tag_list trim_left_hash c_colon (split_byte c_comma component) labels
  else (labels, []).

(* first index of '#' (Librato on) or ',' (Influx on) *)
Fixpoint find_name_sep (f : flags) (s : bytes) : option nat :=
  match s with
  | [] => None
  | b :: t => if (beq b c_hash && f_librato f) || (beq b c_comma && f_influx f) then Some 0
              else option_map S (find_name_sep f t)
  end.

Definition plain_name_and_tags (f : flags) (name : bytes) (labels : lmap) : bytes * lmap * list tick :=
  match find_name_sep f name with
  | Some i => let '(l, t) := parse_name_tags (skipn (S i) name) labels in (firstn i name, l, t)
  | None => (name, labels, [])
  end.

(* parseNameAndTags *)
Definition parse_name_and_tags (f : flags) (name : bytes) (labels : lmap)
  : res (bytes * lmap * list tick) :=
  if f_signalfx f then
    match index_byte c_lbr name, index_byte c_rbr name with
    | Some st, Some en =>
      if (st <? en)%nat then
        let! inner := slice name (S st) en in
        let! pre := slice name 0 st in
        let! post := slice_from name (S en) in
        let '(l, t) := parse_name_tags inner labels in
        Ok (pre ++ post, l, t)
      else Ok (name, labels, [TTagErr])
    | Some _, None | None, Some _ => Ok (name, labels, [TTagErr])
    | None, None => Ok (plain_name_and_tags f name labels)
    end
  else Ok (plain_name_and_tags f name labels).

Definition s_c : bytes := [x63].        Definition s_g : bytes := [x67].
Definition s_ms : bytes := [x6d; x73].  Definition s_h : bytes := [x68].
Definition s_d : bytes := [x64].        Definition s_s : bytes := [x73].

Inductive stat := StC | StG | StMs | StH | StD | StSet | StBad.
Definition stat_of (t : bytes) : stat :=
  if bytes_eqb t s_c then StC else if bytes_eqb t s_g then StG
  else if bytes_eqb t s_ms then StMs else if bytes_eqb t s_h then StH
  else if bytes_eqb t s_d then StD else if bytes_eqb t s_s then StSet else StBad.

(* buildEvent *)
Definition build_event (st : stat) (metric : bytes) (value : F64) (relative : bool) (labels : lmap)
  : option event :=
  match st with
  | StC => Some {| e_kind := KCounter; e_name := metric; e_value := value; e_labels := labels |}
  | StG => Some {| e_kind := KGauge relative; e_name := metric; e_value := value; e_labels := labels |}
  | StMs => Some {| e_kind := KObserver; e_name := metric; e_value := f_div value f_1000; e_labels := labels |}
  | StH | StD => Some {| e_kind := KObserver; e_name := metric; e_value := value; e_labels := labels |}
  | StSet | StBad => None
  end.

Section WithOracle.
(* strconv.ParseFloat(s, 64): (value, err <> nil) *)
Variable pf : bytes -> F64 * bool.

(* the second loop over components[2:] of one sample *)
Fixpoint apply_components (f : flags) (st : stat) (comps : list bytes)
         (value : F64) (mult : Z) (labels : lmap) (ticks : list tick)
  : F64 * Z * lmap * list tick :=
  match comps with
  | [] => (value, mult, labels, ticks)
  | comp :: rest =>
    match comp with
    | [] => apply_components f st rest value mult labels ticks (* excluded by the first loop *)
    | c0 :: ctail =>
      if beq c0 c_at then
        let '(sf0, err) := pf ctail in
        let ticks1 := if err then ticks ++ [TErr InvalidSampleFactor] else ticks in
        let sf := if f_eqb sf0 f_zero then f_one else sf0 in
        match st with
        | StG => apply_components f st rest value mult labels ticks1
        | StC => apply_components f st rest (f_div value sf) mult labels ticks1
        | StMs | StH | StD =>
          apply_components f st rest value (f_to_int (f_div f_one sf)) labels ticks1
        | _ => apply_components f st rest value mult labels ticks1
        end
      else if beq c0 c_hash then
        let '(l, t) := parse_dogstatsd_tags f ctail labels in
        apply_components f st rest value mult l (ticks ++ t)
      else apply_components f st rest value mult labels (ticks ++ [TErr InvalidSampleFactor])
    end
  end.

Definition starts_with_sign (s : bytes) : bool :=
  match s with b :: _ => beq b c_plus || beq b c_minus | [] => false end.

(* events produced by the final loop: multiplyEvents copies, or illegal_event ticks *)
Definition emit (st : stat) (metric : bytes) (value : F64) (relative : bool) (labels : lmap) (mult : Z)
  : list event * list tick :=
  let n := Z.to_nat mult in
  match build_event st metric value relative labels with
  | Some e => (repeat e n, [])
  | None => ([], repeat (TErr IllegalEvent) n)
  end.

(* one iteration of the [samples:] loop; labels are threaded (one shared Go map per line) *)
Definition do_sample (f : flags) (metric : bytes) (sample : bytes) (labels : lmap)
  : list event * lmap * list tick :=
  let components := split_byte c_pipe sample in
  let n := length components in
  if (n <? 2)%nat || (4 <? n)%nat then ([], labels, [TSample; TErr MalformedComponent])
  else
    match components with
    | value_str :: stat_type :: extra =>
      let relative := starts_with_sign value_str in
      let '(value, err) := pf value_str in
      if err then ([], labels, [TSample; TErr MalformedValue])
      else if existsb (fun c => match c with [] => true | _ => false end) extra
      then ([], labels, [TSample; TErr MalformedComponent])
      else
        let st := stat_of stat_type in
        let '(value', mult, labels', ticks) := apply_components f st extra value 1%Z labels [] in
        let ticks2 := match labels' with [] => [] | _ => [TTagsRecv] end in
        let '(evs, ticks3) := emit st metric value' relative labels' mult in
        (evs, labels', [TSample] ++ ticks ++ ticks2 ++ ticks3)
    | _ => ([], labels, [TSample; TErr MalformedComponent])
    end.

Fixpoint do_samples (f : flags) (metric : bytes) (samples : list bytes) (labels : lmap)
  : list event * list tick :=
  match samples with
  | [] => ([], [])
  | s :: rest =>
    let '(e1, l1, t1) := do_sample f metric s labels in
    let '(e2, t2) := do_samples f metric rest l1 in
    (e1 ++ e2, t1 ++ t2)
  end.

Definition pipe_hash : bytes := [c_pipe; c_hash].

Definition is_agg_type (t : bytes) : bool :=
  bytes_eqb t s_ms || bytes_eqb t s_h || bytes_eqb t s_d.

(* LineToEvents *)
Definition line_to_events (f : flags) (line : bytes) : res (list event * list tick) :=
  match line with
  | [] => Ok ([], [])
  | _ =>
    match splitn_byte c_colon 2 line with
    | [name_part; rest] =>
      if match name_part with [] => true | _ => false end || negb (valid_string line)
      then Ok ([], [TErr MalformedLine])
      else
        let! (metric, labels, t0) := parse_name_and_tags f name_part [] in
        let using_dog := contains pipe_hash rest in
        if using_dog && match labels with [] => false | _ => true end
        then Ok ([], t0 ++ [TErr MixedTagging])
        else
          match splitn_byte c_pipe 3 rest with
          | p0 :: p1 :: _ =>
            if contains [c_colon] p0 then
              if is_agg_type p1 then
                let '(_, suffix, _) := cut_byte c_pipe rest in
                let samples := map (fun v => v ++ [c_pipe] ++ suffix) (split_byte c_colon p0) in
                let '(evs, t) := do_samples f metric samples labels in Ok (evs, t0 ++ t)
              else Ok ([], t0 ++ [TErr InvalidExtAgg])
            else if using_dog then
              let '(evs, t) := do_samples f metric [rest] labels in Ok (evs, t0 ++ t)
            else
              let '(evs, t) := do_samples f metric (split_byte c_colon rest) labels in Ok (evs, t0 ++ t)
          | _ => Ok ([], t0 ++ [TErr NotEnoughParts])
          end
    | _ => Ok ([], [TErr MalformedLine])
    end
  end.
End WithOracle.
