(* pkg/mapper/escape.go: EscapeMetricName, line by line (offset arithmetic, lazy copy).
   Mirrors the code after the "fix: escape" commit: the offset advances by the decoded width
   of an invalid byte, not by RuneLen(U+FFFD). *)
From SE Require Export Base.Utf8.
Local Open Scope N_scope.

Definition is_digit_n (n : N) : bool := (48 <=? n) && (n <=? 57).
Definition is_legal_rune (c : rune) : bool :=
  ((97 <=? c) && (c <=? 122)) || ((65 <=? c) && (c <=? 90)) || is_digit_n c || (c =? 95).

Definition underscore : byte := x5f.
Definition dash_rune : rune := 45.

Record esc_state := {
  es_sb : bytes;        (* strings.Builder contents *)
  es_offset : nat;
  es_prev : rune;
  es_escaped : bool }.

(* width used to advance [offset] past rune c found at byte index i *)
Definition advance_width (s : bytes) (i : nat) (c : rune) : Z :=
  if c =? rune_error then Z.of_nat (snd (decode (skipn i s))) else rune_len c.

Definition esc_step (s : bytes) (st : esc_state) (irw : nat * rune * nat) : res esc_state :=
  let '(i, c, _) := irw in
  if is_legal_rune c then
    Ok {| es_sb := es_sb st; es_offset := es_offset st; es_prev := c; es_escaped := es_escaped st |}
  else if (c =? dash_rune) && (es_prev st =? dash_rune) then
    Ok {| es_sb := es_sb st; es_offset := Z.to_nat (Z.of_nat i + rune_len c);
          es_prev := es_prev st; es_escaped := es_escaped st |}
  else
    let! chunk := slice s (es_offset st) i in
    Ok {| es_sb := es_sb st ++ chunk ++ [underscore];
          es_offset := Z.to_nat (Z.of_nat i + advance_width s i c);
          es_prev := c; es_escaped := true |}.

Fixpoint esc_loop (s : bytes) (st : esc_state) (rs : list (nat * rune * nat)) : res esc_state :=
  match rs with
  | [] => Ok st
  | r :: rs' => let! st' := esc_step s st r in esc_loop s st' rs'
  end.

Definition escape_body (s : bytes) (b0 : byte) : res bytes :=
  let dig := is_digit_n (bN b0) in
  let st0 := {| es_sb := if dig then [underscore] else []; es_offset := 0;
                es_prev := 0; es_escaped := dig |} in
  let! st := esc_loop s st0 (range_runes s) in
  if negb (es_escaped st) then Ok s
  else if (es_offset st <? length s)%nat then
    let! tail := slice_from s (es_offset st) in Ok (es_sb st ++ tail)
  else Ok (es_sb st).

Definition escape_metric_name (s : bytes) : res bytes :=
  match s with
  | [] => Ok []
  | b0 :: _ => escape_body s b0
  end.
