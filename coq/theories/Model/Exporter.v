(* pkg/exporter/exporter.go: handleEvent (after the exporter fixes: label copy, NaN counters,
   empty names, reserved labels).  Logging is ignored; telemetry counters are modelled. *)
From SE Require Export Model.Registry Model.Line.
From Coq Require Import ZArith.

(* telemetry: CounterVec contents as association lists *)
Definition tally := list (bytes * N).
Fixpoint bump (k : bytes) (l : tally) : tally :=
  match l with
  | [] => [(k, 1%N)]
  | (k', n) :: r => if bytes_eqb k k' then (k', N.succ n) :: r else (k', n) :: bump k r
  end.

Record telemetry := {
  t_events : tally;        (* statsd_exporter_events_total{type} *)
  t_actions : tally;       (* ..._events_actions_total{action} *)
  t_unmapped : N;
  t_errors : tally;        (* ..._events_error_total{reason} *)
  t_conflicts : list ((bytes * bytes) * N) (* ..._events_conflict_total{type,metric_name} *) }.
Definition empty_telemetry : telemetry :=
  {| t_events := []; t_actions := []; t_unmapped := 0; t_errors := []; t_conflicts := [] |}.

Fixpoint bump2 (k : bytes * bytes) (l : list ((bytes * bytes) * N)) : list ((bytes * bytes) * N) :=
  match l with
  | [] => [(k, 1%N)]
  | (k', n) :: r => if bytes_eqb (fst k) (fst k') && bytes_eqb (snd k) (snd k') then (k', N.succ n) :: r
                    else (k', n) :: bump2 k r
  end.

Definition tl_event (t : telemetry) (k : bytes) := {| t_events := bump k (t_events t); t_actions := t_actions t; t_unmapped := t_unmapped t; t_errors := t_errors t; t_conflicts := t_conflicts t |}.
Definition tl_action (t : telemetry) (k : bytes) := {| t_events := t_events t; t_actions := bump k (t_actions t); t_unmapped := t_unmapped t; t_errors := t_errors t; t_conflicts := t_conflicts t |}.
Definition tl_unmapped (t : telemetry) := {| t_events := t_events t; t_actions := t_actions t; t_unmapped := N.succ (t_unmapped t); t_errors := t_errors t; t_conflicts := t_conflicts t |}.
Definition tl_error (t : telemetry) (k : bytes) := {| t_events := t_events t; t_actions := t_actions t; t_unmapped := t_unmapped t; t_errors := bump k (t_errors t); t_conflicts := t_conflicts t |}.
Definition tl_conflict (t : telemetry) (ty name : bytes) := {| t_events := t_events t; t_actions := t_actions t; t_unmapped := t_unmapped t; t_errors := t_errors t; t_conflicts := bump2 (ty, name) (t_conflicts t) |}.

Definition default_help : bytes :=
  [x4d;x65;x74;x72;x69;x63;x20;x61;x75;x74;x6f;x67;x65;x6e;x65;x72;x61;x74;x65;x64;x20;x62;x79;x20;
   x73;x74;x61;x74;x73;x64;x5f;x65;x78;x70;x6f;x72;x74;x65;x72;x2e].
Definition s_empty_metric_name : bytes := [x65;x6d;x70;x74;x79;x5f;x6d;x65;x74;x72;x69;x63;x5f;x6e;x61;x6d;x65].
Definition s_reserved_label : bytes := [x72;x65;x73;x65;x72;x76;x65;x64;x5f;x6c;x61;x62;x65;x6c].
Definition s_illegal_negative_counter : bytes :=
  [x69;x6c;x6c;x65;x67;x61;x6c;x5f;x6e;x65;x67;x61;x74;x69;x76;x65;x5f;x63;x6f;x75;x6e;x74;x65;x72].

Definition type_string (k : ev_kind) : bytes :=
  match k with KCounter => s_counter | KGauge _ => s_gauge | KObserver => s_observer end.

(* merge the mapping's labels into a copy of the event's labels; honor_labels keeps the tag *)
Definition merge_labels (honor : bool) (tags : lmap) (rule_labels : lmap) : lmap :=
  fold_left (fun m kv => if honor && lm_mem (fst kv) m then m else lm_set (fst kv) (snd kv) m) rule_labels tags.

(* what handleEvent decides before it touches the registry *)
Inductive decision :=
| DDone (tel : telemetry)                    (* dropped by action, or rejected with an error counter *)
| DUpdate (tel : telemetry) (t : mtype) (name : bytes) (labels : lmap) (help : bytes) (ttl : Z)
          (rule_ : option rule) (upd : mvalue -> res mvalue).

Definition classify (d : defaults) (tel : telemetry) (e : event)
           (mapped : option (rule * bytes * lmap)) : decision :=
  let ttl := match mapped with Some (r, _, _) => ru_ttl r | None => df_ttl d end in
  if match mapped with Some (r, _, _) => ru_drop r | None => false end
  then DDone (tl_action tel s_drop)
  else
    let help := match mapped with
                | Some (r, _, _) => match ru_help r with [] => default_help | h => h end
                | None => default_help end in
    (* name, labels and the action/unmapped counters *)
    let named : option (bytes * lmap * telemetry) :=
      match mapped with
      | Some (r, nm, ls) =>
        match nm with
        | [] => None
        | _ => Some (esc nm, merge_labels (ru_honor r) (e_labels e) ls, tl_action tel s_map)
        end
      | None =>
        match esc (e_name e) with
        | [] => None
        | n => Some (n, e_labels e, tl_unmapped tel)
        end
      end in
    match named with
    | None => DDone (tl_error (match mapped with None => tl_unmapped tel | Some _ => tel end) s_empty_metric_name)
    | Some (name, labels, tel1) =>
      if existsb (fun k => has_prefix reserved_prefix k) (lm_keys labels)
      then DDone (tl_error tel1 s_reserved_label)
      else
        let value := match mapped with
                     | Some (r, _, _) => match ru_scale r with Some s => f_mul (e_value e) s | None => e_value e end
                     | None => e_value e end in
        let rule_ := match mapped with Some (r, _, _) => Some r | None => None end in
        match e_kind e with
        | KCounter =>
          if f_ltb value f_zero || f_is_nan value
          then DDone (tl_error tel1 s_illegal_negative_counter)
          else DUpdate tel1 MCounter name labels help ttl rule_ (fun c => counter_add c value)
        | KGauge rel =>
          DUpdate tel1 MGauge name labels help ttl rule_ (fun g => if rel then gauge_add g value else gauge_set g value)
        | KObserver =>
          let t0 := match mapped with Some (r, _, _) => ru_observer r | None => ObsDefault end in
          let t := match t0 with ObsDefault => df_observer d | _ => t0 end in
          let is_hist := match t with ObsHistogram => true | _ => false end in
          if lm_mem (if is_hist then s_le else s_quantile) labels
          then DDone (tl_error tel1 s_reserved_label)
          else DUpdate tel1 (if is_hist then MHistogram else MSummary) name labels help ttl rule_ (fun o => observe o value)
        end
    end.

Record exporter := { x_registry : registry; x_tel : telemetry }.

Inductive hres := HOk (x : exporter) | HPanic.

(* handleEvent, given what GetMapping answered: [mapped] = Some (rule, formatted name, labels) *)
Definition handle_event (d : defaults) (now : Z) (x : exporter) (e : event)
           (mapped : option (rule * bytes * lmap)) : hres :=
  let rg := x_registry x in
  match classify d (x_tel x) e mapped with
  | DDone tel => HOk {| x_registry := rg; x_tel := tel |}
  | DUpdate tel1 t name labels help ttl rule_ upd =>
    match get_series rg d rule_ now t name labels help ttl with
    | GPanic => HPanic
    | GConflict rg' => HOk {| x_registry := rg'; x_tel := tl_conflict tel1 (type_string (e_kind e)) name |}
    | GOk rg' n vk vals =>
      match update_series rg' n vk vals upd with
      | Ok rg'' => HOk {| x_registry := rg''; x_tel := tl_event tel1 (type_string (e_kind e)) |}
      | Panic => HPanic
      end
    end
  end.
