(* pkg/mappercache/lru (groupcache lru.Cache: MoveToFront on Get, update in place on Add,
   RemoveOldest beyond MaxEntries) and pkg/mappercache/randomreplacement (a Go map; the evicted
   key is whatever map iteration yields first: modelled as an arbitrary choice function).
   Cache metrics are ignored. *)
From SE Require Export Base.Strings.

Section Cache.
Variable V : Type.

Definition entries := list (bytes * V).

Fixpoint c_find (k : bytes) (l : entries) : option V :=
  match l with
  | [] => None
  | (k', v) :: r => if bytes_eqb k k' then Some v else c_find k r
  end.

Fixpoint c_remove (k : bytes) (l : entries) : entries :=
  match l with
  | [] => []
  | (k', v) :: r => if bytes_eqb k k' then r else (k', v) :: c_remove k r
  end.

(* --- LRU: front of the list is most recently used --- *)
Record lru := { lru_max : nat; lru_items : entries }.

Definition lru_get (c : lru) (k : bytes) : option V * lru :=
  match c_find k (lru_items c) with
  | Some v => (Some v, {| lru_max := lru_max c; lru_items := (k, v) :: c_remove k (lru_items c) |})
  | None => (None, c)
  end.

Definition lru_add (c : lru) (k : bytes) (v : V) : lru :=
  match c_find k (lru_items c) with
  | Some _ => {| lru_max := lru_max c; lru_items := (k, v) :: c_remove k (lru_items c) |}
  | None =>
    let l := (k, v) :: lru_items c in
    {| lru_max := lru_max c;
       lru_items := if (negb (lru_max c =? 0)) && (lru_max c <? length l) then removelast l else l |}
  end.

Definition lru_reset (c : lru) : lru := {| lru_max := lru_max c; lru_items := [] |}.

(* --- random replacement --- *)
Record rr := { rr_size : nat; rr_items : entries }.
Variable choose : entries -> nat.      (* which entry map iteration yields first *)

Definition rr_get (c : rr) (k : bytes) : option V * rr := (c_find k (rr_items c), c).

Fixpoint remove_nth (n : nat) (l : entries) : entries :=
  match l, n with
  | [], _ => []
  | _ :: r, O => r
  | x :: r, S n' => x :: remove_nth n' r
  end.

Definition rr_add (c : rr) (k : bytes) (v : V) : rr :=
  let l := match c_find k (rr_items c) with
           | Some _ => (k, v) :: c_remove k (rr_items c)
           | None => (k, v) :: rr_items c end in
  {| rr_size := rr_size c;
     rr_items := if rr_size c <? length l then remove_nth (choose l mod length l) l else l |}.

Definition rr_reset (c : rr) : rr := {| rr_size := rr_size c; rr_items := [] |}.
End Cache.
