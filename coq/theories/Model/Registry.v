(* pkg/registry/registry.go (after the registry fixes: suffix collisions, shared help, ttl refresh)
   and pkg/metrics.  The FNV hashes of label names / label names+values are replaced by the
   hashed data itself (hash collisions assumed absent, trusted base).  RefCount is write-only in
   the Go code and is not modelled. *)
From SE Require Export Model.ClientGolang Model.Mapper.
From Coq Require Import ZArith.

Record rmetric := { rm_last : Z; rm_labels : lmap; rm_ttl : Z; rm_veckey : list bytes }.

Record rname := {
  rn_type : mtype;
  rn_help : bytes;                                       (* metrics.Metric.Help, "" = unset *)
  rn_vecs : list (list bytes * vec);                     (* Vectors, keyed by the label names *)
  rn_metrics : list ((list bytes * list bytes) * rmetric) (* Metrics, keyed by names + values *) }.

Record registry := {
  rg_names : list (bytes * rname);
  rg_created : list (mtype * N)          (* metricsCount gauge: vectors created per type *) }.

Definition empty_registry : registry := {| rg_names := []; rg_created := [] |}.

Fixpoint name_find (n : bytes) (l : list (bytes * rname)) : option rname :=
  match l with
  | [] => None
  | (k, v) :: r => if bytes_eqb n k then Some v else name_find n r
  end.
Fixpoint name_set (n : bytes) (v : rname) (l : list (bytes * rname)) : list (bytes * rname) :=
  match l with
  | [] => [(n, v)]
  | (k, v') :: r => if bytes_eqb n k then (n, v) :: r else (k, v') :: name_set n v r
  end.

Fixpoint vecs_find (k : list bytes) (l : list (list bytes * vec)) : option vec :=
  match l with
  | [] => None
  | (k', v) :: r => if list_bytes_eqb' k k' then Some v else vecs_find k r
  end.
Fixpoint vecs_set (k : list bytes) (v : vec) (l : list (list bytes * vec)) : list (list bytes * vec) :=
  match l with
  | [] => [(k, v)]
  | (k', v') :: r => if list_bytes_eqb' k k' then (k, v) :: r else (k', v') :: vecs_set k v r
  end.

Definition key2_eqb (a b : list bytes * list bytes) : bool :=
  list_bytes_eqb' (fst a) (fst b) && list_bytes_eqb' (snd a) (snd b).
Fixpoint rm_find (k : list bytes * list bytes) (l : list ((list bytes * list bytes) * rmetric)) : option rmetric :=
  match l with
  | [] => None
  | (k', v) :: r => if key2_eqb k k' then Some v else rm_find k r
  end.
Fixpoint rm_set (k : list bytes * list bytes) (v : rmetric) (l : list ((list bytes * list bytes) * rmetric)) :=
  match l with
  | [] => [(k, v)]
  | (k', v') :: r => if key2_eqb k k' then (k, v) :: r else (k', v') :: rm_set k v r
  end.

(* MetricConflicts *)
Definition metric_conflicts (rg : registry) (name : bytes) (t : mtype) : bool :=
  match name_find name (rg_names rg) with
  | None => false
  | Some rn => negb (mtype_eqb (rn_type rn) t)
  end.

(* checkNameCollision *)
Definition check_name_collision (rg : registry) (name : bytes) (t : mtype) : bool :=
  let base_hits (suffix : bytes) (summary_counts : bool) :=
    if has_suffix suffix name then
      match name_find (trim_suffix suffix name) (rg_names rg) with
      | Some rn => match rn_type rn with MHistogram => true | MSummary => summary_counts | _ => false end
      | None => false
      end
    else false in
  base_hits s_bucket false || base_hits s_count true || base_hits s_sum true ||
  match t with
  | MHistogram => opt_some (name_find (name ++ s_bucket) (rg_names rg)) ||
                  opt_some (name_find (name ++ s_count) (rg_names rg)) || opt_some (name_find (name ++ s_sum) (rg_names rg))
  | MSummary => opt_some (name_find (name ++ s_count) (rg_names rg)) || opt_some (name_find (name ++ s_sum) (rg_names rg))
  | _ => false
  end.

Definition bump_created (t : mtype) (l : list (mtype * N)) : list (mtype * N) :=
  let fix go l := match l with
    | [] => [(t, 1%N)]
    | (t', n) :: r => if mtype_eqb t t' then (t', N.succ n) :: r else (t', n) :: go r end in go l.

(* what GetCounter/GetGauge/GetHistogram/GetSummary return *)
Inductive gres :=
| GOk (rg : registry) (name : bytes) (veckey values : list bytes)    (* the series to update *)
| GConflict (rg : registry)
| GPanic.

(* vector options chosen by GetHistogram / GetSummary from the mapping and the defaults *)
Definition hist_buckets_for (d : defaults) (r : option rule) : list F64 :=
  match r with
  | Some ru => match ru_hist ru with
               | Some h => match ho_buckets h with [] => df_buckets d | b => b end
               | None => df_buckets d end
  | None => df_buckets d
  end.

Definition default_objs : list F64 := objectives_of (map fst def_quantiles).
Definition summ_objs_for (d : defaults) (r : option rule) : list F64 :=
  let qs := match r with
            | Some ru => match ru_summary ru with
                         | Some s => match so_quantiles s with [] => so_quantiles (df_summary d) | q => q end
                         | None => so_quantiles (df_summary d) end
            | None => so_quantiles (df_summary d) end in
  match objectives_of (map fst qs) with [] => default_objs | o => o end.
Definition summ_max_age_for (d : defaults) (r : option rule) : Z :=
  match r with
  | Some ru => match ru_summary ru with Some s => so_max_age s | None => so_max_age (df_summary d) end
  | None => so_max_age (df_summary d)
  end.

(* The common body of the four Get* functions *)
Definition get_series (rg : registry) (d : defaults) (rule_ : option rule) (now : Z)
           (t : mtype) (name : bytes) (labels : lmap) (help : bytes) (ttl : Z) : gres :=
  let names := lm_keys labels in
  let values := lm_vals labels in
  let hit :=
    match name_find name (rg_names rg) with
    | Some rn =>
      if mtype_eqb (rn_type rn) t then
        match rm_find (names, values) (rn_metrics rn) with
        | Some rm => Some (rn, rm)
        | None => None
        end
      else None
    | None => None
    end in
  match hit with
  | Some (rn, rm) =>
    (* Registry.Get refreshes LastRegisteredAt; refreshTTL applies the mapping's ttl *)
    let rm' := {| rm_last := now; rm_labels := rm_labels rm; rm_ttl := ttl; rm_veckey := rm_veckey rm |} in
    let rn' := {| rn_type := rn_type rn; rn_help := rn_help rn; rn_vecs := rn_vecs rn;
                  rn_metrics := rm_set (names, values) rm' (rn_metrics rn) |} in
    GOk {| rg_names := name_set name rn' (rg_names rg); rg_created := rg_created rg |} name (rm_veckey rm) values
  | None =>
    if metric_conflicts rg name t then GConflict rg
    else if check_name_collision rg name t then GConflict rg
    else
      let existing := match name_find name (rg_names rg) with
                      | Some rn => if mtype_eqb (rn_type rn) t then vecs_find names (rn_vecs rn) else None
                      | None => None end in
      let fam_help := match name_find name (rg_names rg) with
                      | Some rn => match rn_help rn with [] => help | h => h end
                      | None => help end in
      let '(v0, created, rg1) :=
        match existing with
        | Some v => (v, false, rg)
        | None =>
          ({| vc_names := names; vc_help := fam_help; vc_type := t;
              vc_bounds := match t with MHistogram => hist_buckets_for d rule_ | _ => [] end;
              vc_objs := match t with MSummary => summ_objs_for d rule_ | _ => [] end;
              vc_max_age := match t with MSummary => summ_max_age_for d rule_ | _ => 0%Z end;
              vc_children := [] |}, true,
           {| rg_names := rg_names rg; rg_created := bump_created t (rg_created rg) |})
        end in
      if created && new_vec_panics t names then GPanic
      else
        match get_metric_with v0 labels with
        | VPanic => GPanic
        | VErr => GConflict rg1        (* the freshly registered, childless vector is never stored *)
        | VOk v1 =>
          (* Store *)
          let rn0 := match name_find name (rg_names rg1) with
                     | Some rn => rn
                     | None => {| rn_type := t; rn_help := []; rn_vecs := []; rn_metrics := [] |} end in
          let rm := {| rm_last := now; rm_labels := labels; rm_ttl := ttl; rm_veckey := names |} in
          let rn1 := {| rn_type := rn_type rn0;
                        rn_help := match rn_help rn0 with [] => (if created then fam_help else help) | h => h end;
                        rn_vecs := vecs_set names v1 (rn_vecs rn0);
                        rn_metrics := rm_set (names, values) rm (rn_metrics rn0) |} in
          GOk {| rg_names := name_set name rn1 (rg_names rg1); rg_created := rg_created rg1 |} name names values
        end
  end.

(* apply an update to the series returned by get_series *)
Definition update_series (rg : registry) (name : bytes) (veckey values : list bytes)
           (f : mvalue -> res mvalue) : res registry :=
  match name_find name (rg_names rg) with
  | None => Panic
  | Some rn =>
    match vecs_find veckey (rn_vecs rn) with
    | None => Panic
    | Some v =>
      let! v' := vec_update v values f in
      Ok {| rg_names := name_set name {| rn_type := rn_type rn; rn_help := rn_help rn;
                                          rn_vecs := vecs_set veckey v' (rn_vecs rn);
                                          rn_metrics := rn_metrics rn |} (rg_names rg);
            rg_created := rg_created rg |}
    end
  end.

(* RemoveStaleMetrics *)
Definition sweep_name (now : Z) (rn : rname) : rname :=
  let stale := fun (e : (list bytes * list bytes) * rmetric) =>
    negb (rm_ttl (snd e) =? 0)%Z && (rm_last (snd e) + rm_ttl (snd e) <? now)%Z in
  let vecs' := fold_left (fun vs e =>
                 if stale e then
                   match vecs_find (rm_veckey (snd e)) vs with
                   | Some v => vecs_set (rm_veckey (snd e)) (vec_delete v (rm_labels (snd e))) vs
                   | None => vs
                   end
                 else vs) (rn_metrics rn) (rn_vecs rn) in
  {| rn_type := rn_type rn; rn_help := rn_help rn; rn_vecs := vecs';
     rn_metrics := filter (fun e => negb (stale e)) (rn_metrics rn) |}.

Definition remove_stale (rg : registry) (now : Z) : registry :=
  {| rg_names := map (fun kv => (fst kv, sweep_name now (snd kv))) (rg_names rg); rg_created := rg_created rg |}.

(* everything the client registry would collect from the vectors this registry created *)
Definition registry_samples (rg : registry) : list sample :=
  flat_map (fun kv => flat_map (fun kvec => samples_of_vec (fst kv) (snd kvec)) (rn_vecs (snd kv))) (rg_names rg).
