(* pkg/relay/relay.go after "fix: the relay keeps running after a failed send": RelayLine (length
   check with the uint arithmetic written out, newline, counters, enqueue on the 100-slot channel)
   and the sender goroutine relayOutput (buffer, overflow flush, tick flush).  The result of each
   WriteToUDP is an oracle (a boolean supplied with the step).  Logging is ignored. *)
From SE Require Export Base.Strings.
From Coq Require Import ZArith.

Definition c_nl : byte := x0a.
Definition chan_cap : nat := 100.
Definition uint_max : Z := 18446744073709551615.

Record relay := {
  r_plen : Z;                      (* packetLength (uint) *)
  r_chan : list bytes;             (* bufferChannel, oldest first *)
  r_buffer : bytes;                (* the sender's bytes.Buffer *)
  r_sent : list bytes;             (* datagrams handed to the socket successfully, oldest first *)
  r_relayed : N; r_long : N; r_packets : N (* the three relay counters *) }.

Definition new_relay (plen : Z) : relay :=
  {| r_plen := plen; r_chan := []; r_buffer := []; r_sent := []; r_relayed := 0; r_long := 0; r_packets := 0 |}.

Definition zlen (s : bytes) : Z := Z.of_nat (length s).

(* r.packetLength - 1 in uint arithmetic *)
Definition plen_minus_1 (r : relay) : Z := if (r_plen r =? 0)%Z then uint_max else (r_plen r - 1)%Z.

Inductive line_outcome := LEmpty | LTooLong | LEnqueued | LBlocked.

(* RelayLine(l): LBlocked = the channel is full, the caller has to wait for the sender *)
Definition relay_line (r : relay) (l : bytes) : line_outcome * relay :=
  match l with
  | [] => (LEmpty, r)
  | _ =>
    if (plen_minus_1 r <? zlen l)%Z then
      (LTooLong, {| r_plen := r_plen r; r_chan := r_chan r; r_buffer := r_buffer r; r_sent := r_sent r;
                    r_relayed := r_relayed r; r_long := N.succ (r_long r); r_packets := r_packets r |})
    else if (chan_cap <=? length (r_chan r))%nat then (LBlocked, r)
    else
      let l' := if has_suffix [c_nl] l then l else l ++ [c_nl] in
      (LEnqueued, {| r_plen := r_plen r; r_chan := r_chan r ++ [l']; r_buffer := r_buffer r; r_sent := r_sent r;
                     r_relayed := N.succ (r_relayed r); r_long := r_long r; r_packets := r_packets r |})
  end.

(* sendPacket(buf) with the socket's answer [ok] *)
Definition send_packet (r : relay) (buf : bytes) (ok : bool) : list bytes * N :=
  match buf with
  | [] => (r_sent r, r_packets r)
  | _ => (if ok then r_sent r ++ [buf] else r_sent r, N.succ (r_packets r))
  end.

(* the sender takes one line from the channel *)
Definition sender_recv (r : relay) (ok : bool) : option relay :=
  match r_chan r with
  | [] => None
  | b :: rest =>
    if (r_plen r <? zlen b + zlen (r_buffer r))%Z then
      let '(sent, pk) := send_packet r (r_buffer r) ok in
      Some {| r_plen := r_plen r; r_chan := rest; r_buffer := b; r_sent := sent;
              r_relayed := r_relayed r; r_long := r_long r; r_packets := pk |}
    else
      Some {| r_plen := r_plen r; r_chan := rest; r_buffer := r_buffer r ++ b; r_sent := r_sent r;
              r_relayed := r_relayed r; r_long := r_long r; r_packets := r_packets r |}
  end.

(* the one-second tick *)
Definition sender_tick (r : relay) (ok : bool) : relay :=
  let '(sent, pk) := send_packet r (r_buffer r) ok in
  {| r_plen := r_plen r; r_chan := r_chan r; r_buffer := []; r_sent := sent;
     r_relayed := r_relayed r; r_long := r_long r; r_packets := pk |}.

Inductive rop :=
| RLine (l : bytes)        (* a listener calls RelayLine (blocked calls leave the state unchanged) *)
| RRecv (ok : bool)        (* the sender receives one line; ok = result of a send it may trigger *)
| RTick (ok : bool).

Definition rstep (r : relay) (o : rop) : relay :=
  match o with
  | RLine l => snd (relay_line r l)
  | RRecv ok => match sender_recv r ok with Some r' => r' | None => r end
  | RTick ok => sender_tick r ok
  end.

Definition rrun (r : relay) (ops : list rop) : relay := fold_left rstep ops r.

(* the harness' deterministic schedule: the sender drains the channel after every line *)
Definition relay_and_drain (r : relay) (l : bytes) (ok : bool) : relay :=
  rstep (rstep r (RLine l)) (RRecv ok).
