(* Extraction of the executable model for the correspondence runner.
   Directives used: ExtrOcamlBasic only (bool, option, unit, list, prod, sumbool, sumor inductives;
   andb/orb inlined).  N, Z, positive, nat, Byte.byte stay Coq datatypes. *)
From Coq Require Import ExtrOcamlBasic.
From SE Require Import Spec.EscapeSpec Model.Line Model.Mapper Model.Cache Spec.MatchSpec Model.System Model.EventQueue Model.Relay Model.Listener.
Extraction Language OCaml.
Extraction "model.ml" escape_metric_name escape_spec legal_name Byte.to_N Byte.of_N N.of_nat N.to_nat
  line_to_events f_of_bits f_to_bits f_add f_mul f_div f_ltb f_eqb f_of_Z f_to_int
  init_from_yaml get_mapping new_mapper lookup_uncached lru_get lru_add lru_reset rr_get rr_add rr_reset expand format fsm_get_mapping
  first_match most_specific has_ambiguous_wildcard spec_lookup
  init_sys step counter_value gather_ok
  qinit do_queue do_tick
  new_relay rstep
  packet_lines tcp_lines pq_new pq_step.
