module verif/accessgen

go 1.23
