// accessgen: translator from /repo's Go source to the Coq access table used by the race-freedom
// theorem (property C20) and the lock obligations of C14 and C16.
//
// For every function of the tracked packages it walks the body in source order, maintaining the
// set of mutexes held (X.Lock()/X.RLock() ... X.Unlock()/X.RUnlock(); a deferred unlock keeps the
// lock to the end of the function), and records every read and write of a TRACKED FIELD together
// with the locks held at that point.  Calls to other tracked functions are expanded with the
// caller's lock set added (interprocedural, cycles cut).  Method calls on a tracked field whose
// type lives outside the repository get their effect from the table externEffects (unknown
// methods are treated as writes: fail closed).  `go` statements are listed so that the role map
// in Model/Concurrency.v can be checked for completeness.
//
// usage: accessgen <repo dir> <out .v file>
package main

import (
	"fmt"
	"go/ast"
	"go/importer"
	"go/parser"
	"go/token"
	"go/types"
	"os"
	"path/filepath"
	"sort"
	"strings"
)

const module = "github.com/prometheus/statsd_exporter"

// tracked struct fields: "pkgpath.Type.field"
var tracked = map[string]bool{
	"pkg/mapper.MetricMapper.Defaults": true, "pkg/mapper.MetricMapper.Mappings": true, "pkg/mapper.MetricMapper.FSM": true,
	"pkg/mapper.MetricMapper.doFSM": true, "pkg/mapper.MetricMapper.doRegex": true, "pkg/mapper.MetricMapper.cache": true,
	"pkg/mappercache/lru.lruCache.cache":                          true,
	"pkg/mappercache/randomreplacement.metricMapperRRCache.items": true,
	"pkg/event.EventQueue.q":                                      true,
	"pkg/event.EventQueue.C":                                      true, // the hand-off channel (sends are listed in section_table)
	"pkg/registry.Registry.Metrics":                               true, "pkg/registry.Registry.ValueBuf": true,
	"pkg/registry.Registry.NameBuf": true, "pkg/registry.Registry.Hasher": true,
}

// effect of methods of external types called on a tracked field: R, W or - (thread-safe / no access)
var externEffects = map[string]string{
	"github.com/golang/groupcache/lru.Cache.Get": "W", "github.com/golang/groupcache/lru.Cache.Add": "W",
	"github.com/golang/groupcache/lru.Cache.Len": "R", "github.com/golang/groupcache/lru.Cache.Clear": "W",
	"github.com/golang/groupcache/lru.Cache.Remove": "W", "github.com/golang/groupcache/lru.Cache.RemoveOldest": "W",
	"bytes.Buffer.Reset": "W", "bytes.Buffer.WriteByte": "W", "bytes.Buffer.WriteString": "W", "bytes.Buffer.Bytes": "R",
	"hash.Hash64.Reset": "W", "hash.Hash64.Write": "W", "hash.Hash64.Sum64": "R",
	// the mapper cache interface: implementations are analysed themselves (lru, randomreplacement)
	"MetricMapperCache.Get": "-", "MetricMapperCache.Add": "-", "MetricMapperCache.Reset": "-",
	// the FSM is immutable once installed: GetMapping only reads it
	"FSM.GetMapping": "R", "FSM.DumpFSM": "R", "FSM.AddState": "W",
}

type lockHeld struct {
	name string // "Type.field"
	mode string // "R" or "W"
	acq  string // where it was acquired (file:line:col of the Lock/RLock call): identifies the critical section
}

type access struct {
	fn    string
	loc   string
	write bool
	locks []lockHeld
	pos   string
	send  bool     // a channel send on the field (section_table only)
	after []string // goroutines this function had already started (go statements earlier in source order)
}

type funcInfo struct {
	name     string
	decl     *ast.FuncDecl
	lit      *ast.FuncLit
	pkg      *types.Package
	info     *types.Info
	accesses []access // own accesses with locks held locally
	calls    []callSite
}

type callSite struct {
	callee string
	locks  []lockHeld
	after  []string
}

var (
	fset    = token.NewFileSet()
	funcs   = map[string]*funcInfo{}
	gos     []string
	notes   []string
	clocks  []string // "function -> what it asks the clock": wall-clock reads, timers, tickers, I/O deadlines
	digests []string // "function -> digest function it calls": hash/*, crypto/*, third-party hashes
)

// isDigestPkg: packages whose functions turn a string into a (shorter) digest
func isDigestPkg(path string) bool {
	if path == "hash" || strings.HasPrefix(path, "hash/") || strings.HasPrefix(path, "crypto/") {
		return true
	}
	for _, w := range []string{"xxhash", "murmur", "siphash", "highwayhash", "cityhash", "farmhash", "metrohash", "blake", "fnv"} {
		if strings.Contains(strings.ToLower(path), w) {
			return true
		}
	}
	return false
}

// wall-clock dependent entry points of package time
var wallClock = map[string]bool{"Now": true, "Since": true, "Until": true, "After": true, "AfterFunc": true, "NewTimer": true,
	"NewTicker": true, "Tick": true, "Sleep": true}

// methods of time.Time that drop the monotonic clock reading or turn the instant into a wall-clock number
var wallOnly = map[string]bool{"UTC": true, "Local": true, "In": true, "Round": true, "Truncate": true, "AddDate": true,
	"Unix": true, "UnixNano": true, "UnixMilli": true, "UnixMicro": true, "Format": true, "MarshalBinary": true, "MarshalJSON": true, "MarshalText": true}

func isTimeTime(t types.Type) bool {
	k, _ := typeKey(t)
	return k == "time.Time"
}

// clockScan lists, for every function of the package, the calls that make its behaviour depend on time: package time's
// wall-clock functions, anything of the repository's own pkg/clock, and SetDeadline / SetReadDeadline / SetWriteDeadline
// on any value.  The Gallina models of the listener, the parser and the mapper take no time input; ClockFree.v requires
// that this table agrees.
func clockScan(pkg *types.Package, info *types.Info, files []*ast.File) {
	for _, f := range files {
		for _, decl := range f.Decls {
			fd, ok := decl.(*ast.FuncDecl)
			if !ok || fd.Body == nil {
				continue
			}
			name := funcName(pkg, fd, info)
			ast.Inspect(fd.Body, func(n ast.Node) bool {
				call, ok := n.(*ast.CallExpr)
				if !ok {
					return true
				}
				var id *ast.Ident
				switch fun := call.Fun.(type) {
				case *ast.SelectorExpr:
					id = fun.Sel
				case *ast.Ident:
					id = fun
				}
				if id == nil {
					return true
				}
				fn, ok := info.Uses[id].(*types.Func)
				if !ok || fn.Pkg() == nil {
					return true
				}
				path := fn.Pkg().Path()
				if isDigestPkg(path) {
					// the models identify series, cache entries and names by their full strings; a digest in their place is
					// an assumption of no collisions that Digest obligations do not grant
					callee := strings.TrimPrefix(path, module+"/") + "." + fn.Name()
					if recv := fn.Type().(*types.Signature).Recv(); recv != nil {
						if _, n := typeKey(recv.Type()); n != nil {
							callee = path + "." + n.Obj().Name() + "." + fn.Name()
						}
					}
					digests = append(digests, name+" -> "+callee)
				}
				switch {
				case path == "time" && wallClock[fn.Name()] && fn.Type().(*types.Signature).Recv() == nil:
					clocks = append(clocks, name+" -> time."+fn.Name())
				case path == module+"/pkg/clock" && relPkg(pkg) != "pkg/clock":
					clocks = append(clocks, name+" -> clock."+fn.Name())
				case strings.HasSuffix(fn.Name(), "Deadline") && fn.Type().(*types.Signature).Recv() != nil:
					clocks = append(clocks, name+" -> "+fn.Name())
				case path == "time" && fn.Type().(*types.Signature).Recv() != nil && wallOnly[fn.Name()] && isTimeTime(fn.Type().(*types.Signature).Recv().Type()):
					// methods of time.Time whose result has lost the monotonic reading (or is a wall-clock number): ages computed
					// from such values follow steps of the system clock
					clocks = append(clocks, name+" -> Time."+fn.Name())
				case path == "time" && fn.Type().(*types.Signature).Recv() == nil && (fn.Name() == "Unix" || fn.Name() == "UnixMilli" || fn.Name() == "UnixMicro" || fn.Name() == "Date" || fn.Name() == "Parse" || fn.Name() == "ParseInLocation"):
					clocks = append(clocks, name+" -> time."+fn.Name())
				}
				return true
			})
		}
	}
}

func relPos(p token.Pos) string {
	pos := fset.Position(p)
	if wd, err := os.Getwd(); err == nil {
		if r, err := filepath.Rel(wd, pos.Filename); err == nil {
			pos.Filename = r
		}
	}
	return fmt.Sprintf("%s:%d:%d", pos.Filename, pos.Line, pos.Column)
}

func relPkg(p *types.Package) string {
	return strings.TrimPrefix(strings.TrimPrefix(p.Path(), module), "/")
}

func typeKey(t types.Type) (string, *types.Named) {
	for {
		if p, ok := t.(*types.Pointer); ok {
			t = p.Elem()
			continue
		}
		break
	}
	if n, ok := t.(*types.Named); ok && n.Obj().Pkg() != nil {
		return n.Obj().Pkg().Path() + "." + n.Obj().Name(), n
	}
	return "", nil
}

func funcName(pkg *types.Package, d *ast.FuncDecl, info *types.Info) string {
	if d.Recv != nil && len(d.Recv.List) > 0 {
		t := info.TypeOf(d.Recv.List[0].Type)
		if k, n := typeKey(t); n != nil {
			_ = k
			return relPkg(pkg) + "." + n.Obj().Name() + "." + d.Name.Name
		}
	}
	return relPkg(pkg) + "." + d.Name.Name
}

// body of the function being walked (to recognise function-local struct values)
var curBody ast.Node

// localStruct: the selector's base is a variable declared inside the current function whose type
// is a struct VALUE (e.g. "var n MetricMapper"): a fresh object, not the shared one
func localStruct(info *types.Info, sel *ast.SelectorExpr) bool {
	id, ok := sel.X.(*ast.Ident)
	if !ok || curBody == nil {
		return false
	}
	obj, ok := info.Uses[id].(*types.Var)
	if !ok || obj.IsField() {
		return false
	}
	if obj.Pos() < curBody.Pos() || obj.Pos() > curBody.End() {
		return false
	}
	_, isPtr := obj.Type().(*types.Pointer)
	return !isPtr
}

// trackedField returns "pkg.Type.field" if sel selects a tracked field
func trackedField(info *types.Info, sel *ast.SelectorExpr) string {
	s, ok := info.Selections[sel]
	if !ok || s.Kind() != types.FieldVal {
		return ""
	}
	if localStruct(info, sel) {
		return ""
	}
	_, n := typeKey(s.Recv())
	if n == nil || n.Obj().Pkg() == nil {
		return ""
	}
	key := relPkg(n.Obj().Pkg()) + "." + n.Obj().Name() + "." + sel.Sel.Name
	if tracked[key] {
		return key
	}
	return ""
}

func isMutexField(info *types.Info, sel *ast.SelectorExpr) (string, bool) {
	s, ok := info.Selections[sel]
	if !ok || s.Kind() != types.FieldVal {
		return "", false
	}
	tk, _ := typeKey(s.Type())
	if tk != "sync.Mutex" && tk != "sync.RWMutex" {
		return "", false
	}
	_, n := typeKey(s.Recv())
	if n == nil {
		return "", false
	}
	return n.Obj().Name() + "." + sel.Sel.Name, true
}

type walker struct {
	fi      *funcInfo
	held    []lockHeld
	wroot   map[ast.Expr]bool // selector expressions that are written
	spawned []string          // goroutine bodies started so far by this function, in source order
}

func (w *walker) copySpawned() []string { return append([]string(nil), w.spawned...) }

func (w *walker) copyHeld() []lockHeld { return append([]lockHeld(nil), w.held...) }

func (w *walker) record(loc string, write bool, pos token.Pos) {
	w.fi.accesses = append(w.fi.accesses, access{fn: w.fi.name, loc: loc, write: write, locks: w.copyHeld(), pos: fset.Position(pos).String(), after: w.copySpawned()})
}

// base selector of an lvalue like x.f, x.f[k], x.f.g
func lvalueSelectors(e ast.Expr, out *[]*ast.SelectorExpr) {
	switch v := e.(type) {
	case *ast.SelectorExpr:
		*out = append(*out, v)
		lvalueSelectors(v.X, out)
	case *ast.IndexExpr:
		lvalueSelectors(v.X, out)
	case *ast.StarExpr:
		lvalueSelectors(v.X, out)
	case *ast.ParenExpr:
		lvalueSelectors(v.X, out)
	}
}

func isPointer(t types.Type) bool {
	_, ok := t.Underlying().(*types.Pointer)
	return ok
}

// pkgVar: the identifier names a package-level variable of one of the repository's own packages
// (shared by every goroutine; no lock is associated with it by declaration)
func pkgVar(info *types.Info, id *ast.Ident) string {
	v, ok := info.Uses[id].(*types.Var)
	if !ok || v.Pkg() == nil || v.IsField() || v.Parent() != v.Pkg().Scope() {
		return ""
	}
	if !strings.HasPrefix(v.Pkg().Path(), module) {
		return ""
	}
	return "var " + relPkg(v.Pkg()) + "." + v.Name()
}

// base identifier of an lvalue like v, v[k], v.f, *v
func lvalueBase(e ast.Expr) *ast.Ident {
	for {
		switch v := e.(type) {
		case *ast.Ident:
			return v
		case *ast.IndexExpr:
			e = v.X
		case *ast.StarExpr:
			e = v.X
		case *ast.ParenExpr:
			e = v.X
		case *ast.SelectorExpr:
			e = v.X
		default:
			return nil
		}
	}
}

func (w *walker) markWrite(e ast.Expr) {
	var sels []*ast.SelectorExpr
	lvalueSelectors(e, &sels)
	for _, s := range sels {
		if trackedField(w.fi.info, s) != "" {
			w.wroot[s] = true
			return // the outermost tracked field on the path is the one written
		}
	}
	if id := lvalueBase(e); id != nil && pkgVar(w.fi.info, id) != "" {
		// an assignment to the variable itself, to an element of it (map, slice, array) or to a field of a struct value;
		// through a pointer variable (v.f with v a pointer) it is the pointee that is written: only "v = ..." counts then
		if v := w.fi.info.Uses[id].(*types.Var); e == ast.Expr(id) || !isPointer(v.Type()) {
			w.wroot[id] = true
		}
	}
}

func (w *walker) callEffect(call *ast.CallExpr) {
	info := w.fi.info
	sel, ok := call.Fun.(*ast.SelectorExpr)
	if !ok {
		if id, ok := call.Fun.(*ast.Ident); ok {
			switch id.Name {
			case "delete":
				if len(call.Args) > 0 {
					w.markWrite(call.Args[0])
				}
			}
			if obj, ok := info.Uses[id].(*types.Func); ok && obj.Pkg() != nil && strings.HasPrefix(obj.Pkg().Path(), module) {
				w.fi.calls = append(w.fi.calls, callSite{callee: relPkg(obj.Pkg()) + "." + obj.Name(), locks: w.copyHeld(), after: w.copySpawned()})
			}
		}
		return
	}
	// mutex operations
	if inner, ok := sel.X.(*ast.SelectorExpr); ok {
		if lname, ok := isMutexField(info, inner); ok {
			switch sel.Sel.Name {
			case "Lock":
				w.held = append(w.held, lockHeld{lname, "W", relPos(call.Pos())})
			case "RLock":
				w.held = append(w.held, lockHeld{lname, "R", relPos(call.Pos())})
			case "Unlock", "RUnlock":
				for i := len(w.held) - 1; i >= 0; i-- {
					if w.held[i].name == lname {
						w.held = append(w.held[:i], w.held[i+1:]...)
						break
					}
				}
			}
			return
		}
	}
	// method call: on a tracked field of external type, or a call into the repository
	if s, ok := info.Selections[sel]; ok && (s.Kind() == types.MethodVal) {
		fn := s.Obj().(*types.Func)
		recvKey, recvNamed := typeKey(s.Recv())
		if inner, ok := sel.X.(*ast.SelectorExpr); ok {
			if loc := trackedField(info, inner); loc != "" {
				eff, known := "", false
				if recvNamed != nil {
					eff, known = externEffects[recvKey+"."+fn.Name()]
					if !known {
						eff, known = externEffects[recvNamed.Obj().Name()+"."+fn.Name()]
					}
				}
				if !known {
					notes = append(notes, fmt.Sprintf("unknown effect of %s.%s on %s at %s: treated as write", recvKey, fn.Name(), loc, fset.Position(call.Pos())))
					eff = "W"
				}
				if eff == "W" {
					w.wroot[inner] = true
				}
			}
		}
		if fn.Pkg() != nil && strings.HasPrefix(fn.Pkg().Path(), module) && recvNamed != nil {
			if _, isIface := recvNamed.Underlying().(*types.Interface); !isIface {
				w.fi.calls = append(w.fi.calls, callSite{callee: relPkg(fn.Pkg()) + "." + recvNamed.Obj().Name() + "." + fn.Name(), locks: w.copyHeld(), after: w.copySpawned()})
			} else {
				w.fi.calls = append(w.fi.calls, callSite{callee: "iface:" + recvNamed.Obj().Name() + "." + fn.Name(), locks: w.copyHeld(), after: w.copySpawned()})
			}
		}
		return
	}
	// package-level function of the repository
	if obj, ok := info.Uses[sel.Sel].(*types.Func); ok && obj.Pkg() != nil && strings.HasPrefix(obj.Pkg().Path(), module) {
		w.fi.calls = append(w.fi.calls, callSite{callee: relPkg(obj.Pkg()) + "." + obj.Name(), locks: w.copyHeld(), after: w.copySpawned()})
	}
}

// walk statements/expressions in source order
func (w *walker) node(n ast.Node) {
	if n == nil {
		return
	}
	switch v := n.(type) {
	case *ast.AssignStmt:
		for _, l := range v.Lhs {
			w.markWrite(l)
		}
		for _, r := range v.Rhs {
			w.node(r)
		}
		for _, l := range v.Lhs {
			w.node(l)
		}
		return
	case *ast.IncDecStmt:
		w.markWrite(v.X)
		w.node(v.X)
		return
	case *ast.SendStmt:
		// handing a value over on a tracked channel field: a synchronisation operation, not a memory write -
		// it is listed in section_table only (which critical section the hand-off lies in), never in access_table
		if sel, ok := v.Chan.(*ast.SelectorExpr); ok {
			if loc := trackedField(w.fi.info, sel); loc != "" {
				w.fi.accesses = append(w.fi.accesses, access{fn: w.fi.name, loc: loc, write: true, locks: w.copyHeld(), pos: fset.Position(v.Pos()).String(), send: true})
			}
		}
		w.node(v.Value)
		w.node(v.Chan)
		return
	case *ast.DeferStmt:
		// a deferred unlock keeps the lock until the function returns: nothing to do;
		// any other deferred call is analysed as if executed here
		if sel, ok := v.Call.Fun.(*ast.SelectorExpr); ok && (sel.Sel.Name == "Unlock" || sel.Sel.Name == "RUnlock") {
			return
		}
		w.node(v.Call)
		return
	case *ast.GoStmt:
		callee := "?"
		switch f := v.Call.Fun.(type) {
		case *ast.SelectorExpr:
			if s, ok := w.fi.info.Selections[f]; ok {
				if _, nmd := typeKey(s.Recv()); nmd != nil {
					callee = relPkg(nmd.Obj().Pkg()) + "." + nmd.Obj().Name() + "." + f.Sel.Name
				}
			} else {
				callee = f.Sel.Name
			}
		case *ast.Ident:
			callee = relPkg(w.fi.pkg) + "." + f.Name
		case *ast.FuncLit:
			callee = w.fi.name + ".func"
			lit := &funcInfo{name: callee, lit: f, pkg: w.fi.pkg, info: w.fi.info}
			funcs[callee] = lit
			lw := &walker{fi: lit, wroot: map[ast.Expr]bool{}}
			lw.prepass(f.Body)
			lw.node(f.Body)
		}
		gos = append(gos, w.fi.name+" -> "+callee)
		w.spawned = append(w.spawned, callee)
		for _, a := range v.Call.Args {
			w.node(a)
		}
		return
	case *ast.FuncLit:
		// executed inline (callbacks, deferred closures)
		w.node(v.Body)
		return
	case *ast.CallExpr:
		for _, a := range v.Args {
			w.node(a)
		}
		w.callEffect(v)
		// the receiver expression itself is read
		if sel, ok := v.Fun.(*ast.SelectorExpr); ok {
			w.node(sel.X)
		}
		return
	case *ast.SelectorExpr:
		if loc := trackedField(w.fi.info, v); loc != "" {
			w.record(loc, w.wroot[v], v.Pos())
		}
		w.node(v.X)
		return
	case *ast.Ident:
		if loc := pkgVar(w.fi.info, v); loc != "" {
			w.record(loc, w.wroot[v], v.Pos())
		}
		return
	case *ast.RangeStmt:
		w.node(v.X)
		saved := w.copyHeld()
		w.node(v.Body)
		w.held = intersectHeld(saved, w.held) // the body may run zero times
		return
	case *ast.ForStmt:
		w.node(v.Init)
		w.node(v.Cond)
		saved := w.copyHeld()
		w.node(v.Body)
		w.node(v.Post)
		w.held = intersectHeld(saved, w.held)
		return
	case *ast.IfStmt:
		// branch-aware lock tracking: a branch that ends in return / break / continue / panic does not
		// carry its lock state to the code after the if (early "unlock and return" paths)
		w.node(v.Init)
		w.node(v.Cond)
		saved := w.copyHeld()
		w.node(v.Body)
		bodyHeld, bodyTerm := w.copyHeld(), terminates(v.Body.List)
		w.held = append([]lockHeld(nil), saved...)
		elseHeld, elseTerm := saved, false
		if v.Else != nil {
			w.node(v.Else)
			elseHeld = w.copyHeld()
			switch e := v.Else.(type) {
			case *ast.BlockStmt:
				elseTerm = terminates(e.List)
			case *ast.IfStmt:
				elseTerm = false // an else-if chain: its own state was merged by the nested case
			}
		}
		switch {
		case bodyTerm && elseTerm:
			w.held = append([]lockHeld(nil), saved...)
		case bodyTerm:
			w.held = elseHeld
		case elseTerm:
			w.held = bodyHeld
		default:
			w.held = intersectHeld(bodyHeld, elseHeld)
		}
		return
	case *ast.SwitchStmt:
		w.node(v.Init)
		w.node(v.Tag)
		w.clauses(v.Body)
		return
	case *ast.TypeSwitchStmt:
		w.node(v.Init)
		w.node(v.Assign)
		w.clauses(v.Body)
		return
	case *ast.SelectStmt:
		w.clauses(v.Body)
		return
	}
	// generic traversal in source order
	ast.Inspect(n, func(c ast.Node) bool {
		if c == n || c == nil {
			return true
		}
		w.node(c)
		return false
	})
}

// the clauses of a switch / select: each starts from the state before the statement; the state afterwards is
// what all clauses that fall out of the statement agree on (and the state before it when no default clause exists)
func (w *walker) clauses(body *ast.BlockStmt) {
	saved := w.copyHeld()
	var results [][]lockHeld
	hasDefault := false
	for _, c := range body.List {
		w.held = append([]lockHeld(nil), saved...)
		var stmts []ast.Stmt
		switch cc := c.(type) {
		case *ast.CaseClause:
			if cc.List == nil {
				hasDefault = true
			}
			for _, e := range cc.List {
				w.node(e)
			}
			stmts = cc.Body
		case *ast.CommClause:
			if cc.Comm == nil {
				hasDefault = true
			}
			w.node(cc.Comm)
			stmts = cc.Body
		}
		for _, st := range stmts {
			w.node(st)
		}
		if !terminates(stmts) {
			results = append(results, w.copyHeld())
		}
	}
	if !hasDefault {
		results = append(results, saved)
	}
	if len(results) == 0 {
		w.held = saved
		return
	}
	h := results[0]
	for _, r := range results[1:] {
		h = intersectHeld(h, r)
	}
	w.held = h
}

// does a statement list always leave the enclosing construct (return, break, continue, goto, panic, os.Exit)?
func terminates(list []ast.Stmt) bool {
	if len(list) == 0 {
		return false
	}
	switch s := list[len(list)-1].(type) {
	case *ast.ReturnStmt:
		return true
	case *ast.BranchStmt:
		return s.Tok != token.FALLTHROUGH
	case *ast.ExprStmt:
		if call, ok := s.X.(*ast.CallExpr); ok {
			switch f := call.Fun.(type) {
			case *ast.Ident:
				return f.Name == "panic"
			case *ast.SelectorExpr:
				if x, ok := f.X.(*ast.Ident); ok {
					return (x.Name == "os" && f.Sel.Name == "Exit") || (x.Name == "log" && strings.HasPrefix(f.Sel.Name, "Fatal"))
				}
			}
		}
	case *ast.BlockStmt:
		return terminates(s.List)
	}
	return false
}

// locks held on both paths (same lock, same critical section; the weaker mode when they differ)
func intersectHeld(a, b []lockHeld) []lockHeld {
	var out []lockHeld
	for _, x := range a {
		for _, y := range b {
			if x.name == y.name && x.acq == y.acq {
				if y.mode == "R" {
					x.mode = "R"
				}
				out = append(out, x)
				break
			}
		}
	}
	return out
}

// prepass: find written selectors that appear nested (method-call effects are added during the walk)
func (w *walker) prepass(body ast.Node) {}

func loadPackage(dir string, imp types.Importer) (*types.Package, *types.Info, []*ast.File, error) {
	pkgs, err := parser.ParseDir(fset, dir, func(fi os.FileInfo) bool {
		return !strings.HasSuffix(fi.Name(), "_test.go") && !strings.HasSuffix(fi.Name(), "_verif.go")
	}, parser.ParseComments)
	if err != nil {
		return nil, nil, nil, err
	}
	for _, p := range pkgs {
		var files []*ast.File
		var names []string
		for n := range p.Files {
			names = append(names, n)
		}
		sort.Strings(names)
		for _, n := range names {
			files = append(files, p.Files[n])
		}
		info := &types.Info{Types: map[ast.Expr]types.TypeAndValue{}, Defs: map[*ast.Ident]types.Object{}, Uses: map[*ast.Ident]types.Object{},
			Selections: map[*ast.SelectorExpr]*types.Selection{}}
		conf := types.Config{Importer: imp, Error: func(err error) {}}
		path := module
		rel, _ := filepath.Rel(os.Args[1], dir)
		if rel != "." {
			path = module + "/" + filepath.ToSlash(rel)
		}
		tp, _ := conf.Check(path, fset, files, info)
		return tp, info, files, nil
	}
	return nil, nil, nil, fmt.Errorf("no package in %s", dir)
}

func expand(name string, extra []lockHeld, seen map[string]bool, depth int, out *[]access, root string) {
	fi, ok := funcs[name]
	if !ok || seen[name] || depth > 12 {
		return
	}
	seen[name] = true
	defer delete(seen, name)
	for _, a := range fi.accesses {
		b := a
		b.fn = root
		b.locks = append(append([]lockHeld(nil), extra...), a.locks...)
		*out = append(*out, b)
	}
	for _, c := range fi.calls {
		locks := append(append([]lockHeld(nil), extra...), c.locks...)
		if strings.HasPrefix(c.callee, "iface:") {
			// interface dispatch: every repository method with that name on a tracked implementation
			m := c.callee[strings.LastIndex(c.callee, ".")+1:]
			iface := strings.TrimPrefix(c.callee[:strings.LastIndex(c.callee, ".")], "iface:")
			var impls []string
			for fn := range funcs {
				if strings.HasSuffix(fn, "."+m) && implements(fn, iface) {
					impls = append(impls, fn)
				}
			}
			sort.Strings(impls)
			for _, fn := range impls {
				expand(fn, locks, seen, depth+1, out, root)
			}
			continue
		}
		expand(c.callee, locks, seen, depth+1, out, root)
	}
}

// expandMain: the accesses main.main makes itself or through the functions it calls, each with the goroutines main had
// already started when it got there (main's start-up section is ordered before a goroutine only by the go statement
// that starts it)
func expandMain(out *[]access) {
	fi, ok := funcs["main.main"]
	if !ok {
		return
	}
	for _, a := range fi.accesses {
		*out = append(*out, a)
	}
	for _, c := range fi.calls {
		var sub []access
		expand(c.callee, c.locks, map[string]bool{"main.main": true}, 1, &sub, "main.main")
		for _, a := range sub {
			a.after = c.after
			*out = append(*out, a)
		}
	}
}

// which concrete types implement which repository interfaces (by name; kept explicit and small)
var ifaceImpls = map[string][]string{
	"MetricMapperCache": {"pkg/mappercache/lru.metricMapperLRUCache", "pkg/mappercache/randomreplacement.metricMapperRRCache"},
	"EventHandler":      {"pkg/event.EventQueue", "pkg/event.UnbufferedEventHandler"},
	"Registry":          {"pkg/registry.Registry"},
	"Parser":            {"pkg/line.Parser"},
	"VectorHolder":      {},
	"Event":             {"pkg/event.CounterEvent", "pkg/event.GaugeEvent", "pkg/event.ObserverEvent", "pkg/event.MultiObserverEvent"},
}

func implements(fn, iface string) bool {
	for _, t := range ifaceImpls[iface] {
		if strings.HasPrefix(fn, t+".") {
			return true
		}
	}
	return false
}

func coqStr(s string) string { return "\"" + s + "\"" }

func main() {
	if len(os.Args) < 3 {
		fmt.Fprintln(os.Stderr, "usage: accessgen <repo> <out.v>")
		os.Exit(2)
	}
	repo := os.Args[1]
	os.Chdir(repo)
	imp := importer.ForCompiler(fset, "source", nil)
	dirs := []string{".", "pkg/mapper", "pkg/mappercache/lru", "pkg/mappercache/randomreplacement", "pkg/event", "pkg/exporter",
		"pkg/registry", "pkg/listener", "pkg/relay", "pkg/line"}
	for _, d := range dirs {
		pkg, info, files, err := loadPackage(filepath.Join(repo, d), imp)
		if err != nil || pkg == nil {
			fmt.Fprintln(os.Stderr, "cannot load", d, err)
			os.Exit(1)
		}
		clockScan(pkg, info, files)
		for _, f := range files {
			for _, decl := range f.Decls {
				fd, ok := decl.(*ast.FuncDecl)
				if !ok || fd.Body == nil {
					continue
				}
				fi := &funcInfo{name: funcName(pkg, fd, info), decl: fd, pkg: pkg, info: info}
				if fi.name == ".main" {
					fi.name = "main.main"
				}
				funcs[fi.name] = fi
			}
		}
	}
	for _, d := range []string{"pkg/mapper/fsm", "pkg/clock", "pkg/address", "pkg/metrics", "pkg/mappercache"} {
		// clock use only: these packages hold no tracked state
		if pkg, info, files, err := loadPackage(filepath.Join(repo, d), imp); err == nil && pkg != nil {
			clockScan(pkg, info, files)
		}
	}
	var names []string
	for n := range funcs {
		names = append(names, n)
	}
	sort.Strings(names)
	for _, n := range names {
		fi := funcs[n]
		if fi.decl == nil {
			continue
		}
		w := &walker{fi: fi, wroot: map[ast.Expr]bool{}}
		curBody = fi.decl.Body
		w.node(fi.decl.Body)
	}
	// entry points = every function; Concurrency.v decides which of them are goroutine roles
	var sb strings.Builder
	sb.WriteString("(* GENERATED by tools/accessgen from /repo's working tree - do not edit. *)\n")
	sb.WriteString("From Coq Require Import List String.\nImport ListNotations.\nOpen Scope string_scope.\n\n")
	sb.WriteString("(* (entry function, location, is write, locks held as (lock, exclusive?)) *)\n")
	sb.WriteString("Definition access_table : list (string * string * bool * list (string * bool)) := [\n")
	var rows, srows []string
	names = names[:0]
	for n := range funcs {
		names = append(names, n)
	}
	sort.Strings(names)
	for _, n := range names {
		var acc []access
		expand(n, nil, map[string]bool{}, 0, &acc, n)
		seen := map[string]bool{}
		for _, a := range acc {
			var ls []string
			lk := map[string]string{}
			for _, l := range a.locks {
				if lk[l.name] != "W" {
					lk[l.name] = l.mode
				}
			}
			var lnames []string
			for k := range lk {
				lnames = append(lnames, k)
			}
			sort.Strings(lnames)
			for _, k := range lnames {
				ex := "false"
				if lk[k] == "W" {
					ex = "true"
				}
				ls = append(ls, "("+coqStr(k)+", "+ex+")")
			}
			wr := "false"
			if a.write {
				wr = "true"
			}
			row := fmt.Sprintf("  (%s, %s, %s, [%s])", coqStr(n), coqStr(a.loc), wr, strings.Join(ls, "; "))
			if !seen[row] && !a.send {
				seen[row] = true
				rows = append(rows, row)
			}
			// the same site with the critical sections it lies in: (lock, exclusive?, acquisition site), outermost first
			var ss []string
			for _, l := range a.locks {
				ex := "false"
				if l.mode == "W" {
					ex = "true"
				}
				ss = append(ss, "("+coqStr(l.name)+", "+ex+", "+coqStr(l.acq)+")")
			}
			srow := fmt.Sprintf("  (%s, %s, %s, [%s])", coqStr(n), coqStr(a.loc), wr, strings.Join(ss, "; "))
			if !seen[srow] {
				seen[srow] = true
				srows = append(srows, srow)
			}
		}
	}
	sb.WriteString(strings.Join(rows, ";\n"))
	sb.WriteString("\n].\n\n(* the same sites with the critical section (acquisition site) of every lock held *)\n")
	sb.WriteString("Definition section_table : list (string * string * bool * list (string * bool * string)) := [\n")
	sb.WriteString(strings.Join(srows, ";\n"))
	sb.WriteString("\n].\n\n(* what main.main touches (itself or through calls): (location, is write, locks held, goroutines main had started before) *)\n")
	sb.WriteString("Definition main_table : list (string * bool * list (string * bool) * list string) := [\n")
	var macc []access
	expandMain(&macc)
	var mrows []string
	mseen := map[string]bool{}
	for _, a := range macc {
		if a.send {
			continue
		}
		var ls, af []string
		for _, l := range a.locks {
			ex := "false"
			if l.mode == "W" {
				ex = "true"
			}
			ls = append(ls, "("+coqStr(l.name)+", "+ex+")")
		}
		for _, g := range a.after {
			af = append(af, coqStr(g))
		}
		wr := "false"
		if a.write {
			wr = "true"
		}
		row := fmt.Sprintf("  (%s, %s, [%s], [%s])", coqStr(a.loc), wr, strings.Join(ls, "; "), strings.Join(af, "; "))
		if !mseen[row] {
			mseen[row] = true
			mrows = append(mrows, row)
		}
	}
	sort.Strings(mrows)
	sb.WriteString(strings.Join(mrows, ";\n"))
	sb.WriteString("\n].\n\n(* go statements found: spawning function -> goroutine body *)\nDefinition go_statements : list (string * string) := [\n")
	sort.Strings(gos)
	var grows []string
	for _, g := range gos {
		p := strings.SplitN(g, " -> ", 2)
		grows = append(grows, "  ("+coqStr(p[0])+", "+coqStr(p[1])+")")
	}
	sb.WriteString(strings.Join(grows, ";\n"))
	sb.WriteString("\n].\n\n(* calls that make a function depend on time: (function, what it asks the clock) *)\nDefinition clock_table : list (string * string) := [\n")
	sort.Strings(clocks)
	var crows []string
	for i, g := range clocks {
		if i > 0 && clocks[i-1] == g {
			continue
		}
		p := strings.SplitN(g, " -> ", 2)
		crows = append(crows, "  ("+coqStr(p[0])+", "+coqStr(p[1])+")")
	}
	sb.WriteString(strings.Join(crows, ";\n"))
	sb.WriteString("\n].\n\n(* calls into digest functions (hash/*, crypto/*, third-party hashes): (function, callee) *)\nDefinition digest_table : list (string * string) := [\n")
	sort.Strings(digests)
	var drows []string
	for i, g := range digests {
		if i > 0 && digests[i-1] == g {
			continue
		}
		p := strings.SplitN(g, " -> ", 2)
		drows = append(drows, "  ("+coqStr(p[0])+", "+coqStr(p[1])+")")
	}
	sb.WriteString(strings.Join(drows, ";\n"))
	sb.WriteString("\n].\n\n(* translator notes (unknown external methods are treated as writes) *)\nDefinition translator_notes : list string := [\n")
	sort.Strings(notes)
	var nrows []string
	for _, n := range notes {
		nrows = append(nrows, "  "+coqStr(strings.ReplaceAll(n, "\"", "'")))
	}
	sb.WriteString(strings.Join(nrows, ";\n"))
	sb.WriteString("\n].\n")
	if err := os.WriteFile(os.Args[2], []byte(sb.String()), 0o644); err != nil {
		fmt.Fprintln(os.Stderr, err)
		os.Exit(1)
	}
	fmt.Printf("accessgen: %d functions, %d access rows, %d go statements, %d notes\n", len(funcs), len(rows), len(gos), len(notes))
}
