(* Conversions between OCaml data and the extracted Coq datatypes. *)
open Model

let rec pos_of_int (i : int) : positive =
  if i = 1 then XH else if i land 1 = 0 then XO (pos_of_int (i lsr 1)) else XI (pos_of_int (i lsr 1))
let n_of_int (i : int) : n = if i = 0 then N0 else Npos (pos_of_int i)
let rec int_of_pos (p : positive) : int =
  match p with XH -> 1 | XO q -> 2 * int_of_pos q | XI q -> 2 * int_of_pos q + 1
let int_of_n (x : n) : int = match x with N0 -> 0 | Npos p -> int_of_pos p
let z_of_int (i : int) : z = if i = 0 then Z0 else if i > 0 then Zpos (pos_of_int i) else Zneg (pos_of_int (-i))
let int_of_z (x : z) : int = match x with Z0 -> 0 | Zpos p -> int_of_pos p | Zneg p -> - (int_of_pos p)
let rec nat_of_int (i : int) : nat = if i <= 0 then O else S (nat_of_int (i - 1))
let rec int_of_nat (x : nat) : int = match x with O -> 0 | S y -> 1 + int_of_nat y

(* Z of a decimal or 0x string (for 64-bit patterns that do not fit OCaml int) *)
let z_of_int64_bits (v : int64) : z =
  (* interpret v as unsigned 64-bit *)
  let rec go (i : int) (acc : positive option) : positive option =
    if i < 0 then acc
    else
      let bit = Int64.logand (Int64.shift_right_logical v i) 1L = 1L in
      let acc' = match acc, bit with
        | None, false -> None
        | None, true -> Some XH
        | Some p, false -> Some (XO p)
        | Some p, true -> Some (XI p) in
      go (i - 1) acc' in
  match go 63 None with None -> Z0 | Some p -> Zpos p
(* a signed decimal that fits int64 but not OCaml's 63-bit int (durations in ns up to 2^63 - 1) *)
let z_of_decimal (s : string) : z =
  let v = Int64.of_string s in
  if Int64.compare v 0L >= 0 then z_of_int64_bits v
  else match z_of_int64_bits (Int64.neg v) with Zpos p -> Zneg p | _ -> Z0
let int64_bits_of_z (x : z) : int64 =
  let rec go (p : positive) : int64 = match p with
    | XH -> 1L | XO q -> Int64.shift_left (go q) 1 | XI q -> Int64.logor (Int64.shift_left (go q) 1) 1L in
  match x with Z0 -> 0L | Zpos p -> go p | Zneg p -> Int64.neg (go p)

let byte_tab : byte array =
  Array.init 256 (fun i -> match of_N (n_of_int i) with Some b -> b | None -> failwith "byte")
let byte_of_int (i : int) : byte = byte_tab.(i)
let int_of_byte (b : byte) : int = int_of_n (to_N b)

let hexval c = match c with
  | '0'..'9' -> Char.code c - 48 | 'a'..'f' -> Char.code c - 87 | 'A'..'F' -> Char.code c - 55
  | _ -> failwith "hex"
(* "-" is the empty string *)
let bytes_of_hex (h : string) : byte list =
  if h = "-" then [] else begin
    let n = String.length h / 2 in
    let rec go i acc = if i < 0 then acc else
      go (i - 1) (byte_of_int (hexval h.[2*i] * 16 + hexval h.[2*i+1]) :: acc) in
    go (n - 1) [] end
let hex_of_bytes (l : byte list) : string =
  if l = [] then "-" else begin
    let b = Buffer.create 64 in
    List.iter (fun x -> Buffer.add_string b (Printf.sprintf "%02x" (int_of_byte x))) l;
    Buffer.contents b end
let bytes_of_string (s : string) : byte list =
  List.init (String.length s) (fun i -> byte_of_int (Char.code s.[i]))
let string_of_bytes (l : byte list) : string =
  let b = Buffer.create 64 in
  List.iter (fun x -> Buffer.add_char b (Char.chr (int_of_byte x))) l; Buffer.contents b

let split_ws (s : string) : string list =
  List.filter (fun x -> x <> "") (String.split_on_char ' ' s)

let iter_lines (path : string) (f : string -> unit) : unit =
  let ic = open_in path in
  (try while true do f (input_line ic) done with End_of_file -> ());
  close_in ic
