(* runner <engine> <casefile> [oraclefile]: runs the extracted Coq model on a case file and
   prints one canonical observation line per case. *)
open Model
open Conv

let engine_escape (cases : string) =
  iter_lines cases (fun line ->
    let s = bytes_of_hex (String.trim line) in
    let spec = escape_spec s in
    let legal = if s = [] then true else legal_name spec in
    match escape_metric_name s with
    | Ok r -> Printf.printf "OK %s SPEC %s %d\n" (hex_of_bytes r) (hex_of_bytes spec) (if legal then 1 else 0)
    | Panic -> Printf.printf "PANIC SPEC %s %d\n" (hex_of_bytes spec) (if legal then 1 else 0))

let () =
  match Array.to_list Sys.argv with
  | _ :: "escape" :: cases :: _ -> engine_escape cases
  | _ -> prerr_endline "usage: runner <engine> <casefile> [oracle]"; exit 2
