(* runner <engine> <casefile> [oraclefile]: runs the extracted Coq model on a case file and
   prints one canonical observation line per case. *)
open Model
open Conv

let engine_escape (cases : string) =
  iter_lines cases (fun line ->
    let s = bytes_of_hex (String.trim line) in
    let spec = escape_spec s in
    let legal = if s = [] then true else legal_name spec in
    match escape_metric_name s with
    | Ok r -> Printf.printf "OK %s SPEC %s %d\n" (hex_of_bytes r) (hex_of_bytes spec) (if legal then 1 else 0)
    | Panic -> Printf.printf "PANIC SPEC %s %d\n" (hex_of_bytes spec) (if legal then 1 else 0))

(* ---- floats as 16-digit hex bit patterns ---- *)
let f_of_hex (h : string) : f64 = f_of_bits (z_of_int64_bits (Int64.of_string ("0x" ^ h)))
let hex_of_f (x : f64) : string = Printf.sprintf "%016Lx" (int64_bits_of_z (f_to_bits x))

let labels_string (l : (byte list * byte list) list) : string =
  if l = [] then "-" else
  String.concat "&" (List.map (fun (k, v) -> hex_of_bytes k ^ "=" ^ hex_of_bytes v)
    (List.sort (fun (a, _) (b, _) -> compare (string_of_bytes a) (string_of_bytes b)) l))

let event_string (e : event) : string =
  let kind = match e.e_kind with KCounter -> "c" | KGauge true -> "g+" | KGauge false -> "g" | KObserver -> "o" in
  kind ^ "," ^ hex_of_bytes e.e_name ^ "," ^ hex_of_f e.e_value ^ "," ^ labels_string e.e_labels

let reason_name = function
  | MalformedLine -> "malformed_line" | MixedTagging -> "mixed_tagging_styles"
  | NotEnoughParts -> "not_enough_parts_after_colon" | InvalidExtAgg -> "invalid_extended_aggregate_type"
  | MalformedComponent -> "malformed_component" | MalformedValue -> "malformed_value"
  | InvalidSampleFactor -> "invalid_sample_factor" | IllegalEvent -> "illegal_event"
let reason_order = [MalformedLine; MixedTagging; NotEnoughParts; InvalidExtAgg; MalformedComponent;
                    MalformedValue; InvalidSampleFactor; IllegalEvent]

let flags_of_int (i : int) : flags =
  { f_dog = i land 1 <> 0; f_influx = i land 2 <> 0; f_librato = i land 4 <> 0; f_signalfx = i land 8 <> 0 }

exception Oracle_miss of string

(* oracle text: "hex:bits:err hex:bits:err ..." *)
let oracle_of_string (s : string) : (byte list -> f64 * bool) =
  let tbl = Hashtbl.create 16 in
  List.iter (fun tok ->
    match String.split_on_char ':' tok with
    | [h; bits; e] -> Hashtbl.replace tbl h (f_of_hex bits, e = "1")
    | _ -> ()) (split_ws s);
  fun b -> let h = hex_of_bytes b in
    match Hashtbl.find_opt tbl h with Some r -> r | None -> raise (Oracle_miss h)

let ticks_string (ticks : tick list) : string =
  let cnt p = List.length (List.filter p ticks) in
  let errs = List.filter_map (fun r ->
      let n = cnt (fun t -> t = TErr r) in
      if n > 0 then Some (Printf.sprintf "%s:%d" (reason_name r) n) else None) reason_order in
  Printf.sprintf "S=%d TE=%d TR=%d ERR=%s" (cnt (fun t -> t = TSample)) (cnt (fun t -> t = TTagErr))
    (cnt (fun t -> t = TTagsRecv)) (if errs = [] then "-" else String.concat "," errs)

let line_obs (pf : byte list -> f64 * bool) (fl : int) (l : byte list) : string =
  try
    match line_to_events pf (flags_of_int fl) l with
    | Panic -> "PANIC"
    | Ok (evs, ticks) ->
      let es = if evs = [] then "-" else String.concat ";" (List.map event_string evs) in
      Printf.sprintf "OK E=%s %s" es (ticks_string ticks)
  with Oracle_miss h -> "ORACLE-MISS " ^ h

let read_lines (path : string) : string array =
  let acc = ref [] in iter_lines path (fun l -> acc := l :: !acc); Array.of_list (List.rev !acc)

let engine_line (cases : string) (hxout : string) =
  let ora = read_lines hxout in
  let i = ref 0 in
  iter_lines cases (fun c ->
    let o = ora.(!i) in incr i;
    let otxt = match String.index_opt o '\t' with
      | Some k -> String.sub o (k + 1) (String.length o - k - 1) | None -> "" in
    match split_ws c with
    | [fl; h] -> print_endline (line_obs (oracle_of_string otxt) (int_of_string fl) (bytes_of_hex h))
    | _ -> print_endline "BADCASE")

let () =
  match Array.to_list Sys.argv with
  | _ :: "escape" :: cases :: _ -> engine_escape cases
  | _ :: "line" :: cases :: hxout :: _ -> engine_line cases hxout
  | _ -> prerr_endline "usage: runner <engine> <casefile> [hx output]"; exit 2
