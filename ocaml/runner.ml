(* runner <engine> <casefile> [oraclefile]: runs the extracted Coq model on a case file and
   prints one canonical observation line per case. *)
open Model
open Conv

let engine_escape (cases : string) =
  iter_lines cases (fun line ->
    let s = bytes_of_hex (String.trim line) in
    let spec = escape_spec s in
    let legal = if s = [] then true else legal_name spec in
    match escape_metric_name s with
    | Ok r -> Printf.printf "OK %s SPEC %s %d\n" (hex_of_bytes r) (hex_of_bytes spec) (if legal then 1 else 0)
    | Panic -> Printf.printf "PANIC SPEC %s %d\n" (hex_of_bytes spec) (if legal then 1 else 0))

(* ---- floats as 16-digit hex bit patterns ---- *)
let f_of_hex (h : string) : f64 = f_of_bits (z_of_int64_bits (Int64.of_string ("0x" ^ h)))
let hex_of_f (x : f64) : string = Printf.sprintf "%016Lx" (int64_bits_of_z (f_to_bits x))

let labels_string (l : (byte list * byte list) list) : string =
  if l = [] then "-" else
  String.concat "&" (List.map (fun (k, v) -> hex_of_bytes k ^ "=" ^ hex_of_bytes v)
    (List.sort (fun (a, _) (b, _) -> compare (string_of_bytes a) (string_of_bytes b)) l))

let event_string (e : event) : string =
  let kind = match e.e_kind with KCounter -> "c" | KGauge true -> "g+" | KGauge false -> "g" | KObserver -> "o" in
  kind ^ "," ^ hex_of_bytes e.e_name ^ "," ^ hex_of_f e.e_value ^ "," ^ labels_string e.e_labels

let reason_name = function
  | MalformedLine -> "malformed_line" | MixedTagging -> "mixed_tagging_styles"
  | NotEnoughParts -> "not_enough_parts_after_colon" | InvalidExtAgg -> "invalid_extended_aggregate_type"
  | MalformedComponent -> "malformed_component" | MalformedValue -> "malformed_value"
  | InvalidSampleFactor -> "invalid_sample_factor" | IllegalEvent -> "illegal_event"
let reason_order = [MalformedLine; MixedTagging; NotEnoughParts; InvalidExtAgg; MalformedComponent;
                    MalformedValue; InvalidSampleFactor; IllegalEvent]

let flags_of_int (i : int) : flags =
  { f_dog = i land 1 <> 0; f_influx = i land 2 <> 0; f_librato = i land 4 <> 0; f_signalfx = i land 8 <> 0 }

exception Oracle_miss of string

(* oracle text: "hex:bits:err hex:bits:err ..." *)
let oracle_of_string (s : string) : (byte list -> f64 * bool) =
  let tbl = Hashtbl.create 16 in
  List.iter (fun tok ->
    match String.split_on_char ':' tok with
    | [h; bits; e] -> Hashtbl.replace tbl h (f_of_hex bits, e = "1")
    | _ -> ()) (split_ws s);
  fun b -> let h = hex_of_bytes b in
    match Hashtbl.find_opt tbl h with Some r -> r | None -> raise (Oracle_miss h)

let ticks_string (ticks : tick list) : string =
  let cnt p = List.length (List.filter p ticks) in
  let errs = List.filter_map (fun r ->
      let n = cnt (fun t -> t = TErr r) in
      if n > 0 then Some (Printf.sprintf "%s:%d" (reason_name r) n) else None) reason_order in
  Printf.sprintf "S=%d TE=%d TR=%d ERR=%s" (cnt (fun t -> t = TSample)) (cnt (fun t -> t = TTagErr))
    (cnt (fun t -> t = TTagsRecv)) (if errs = [] then "-" else String.concat "," errs)

let line_obs (pf : byte list -> f64 * bool) (fl : int) (l : byte list) : string =
  try
    match line_to_events pf (flags_of_int fl) l with
    | Panic -> "PANIC"
    | Ok (evs, ticks) ->
      let es = if evs = [] then "-" else String.concat ";" (List.map event_string evs) in
      Printf.sprintf "OK E=%s %s" es (ticks_string ticks)
  with Oracle_miss h -> "ORACLE-MISS " ^ h

let read_lines (path : string) : string array =
  let acc = ref [] in iter_lines path (fun l -> acc := l :: !acc); Array.of_list (List.rev !acc)

let engine_line (cases : string) (hxout : string) =
  let ora = read_lines hxout in
  let i = ref 0 in
  iter_lines cases (fun c ->
    let o = ora.(!i) in incr i;
    let otxt = match String.index_opt o '\t' with
      | Some k -> String.sub o (k + 1) (String.length o - k - 1) | None -> "" in
    match split_ws c with
    | [fl; h] -> print_endline (line_obs (oracle_of_string otxt) (int_of_string fl) (bytes_of_hex h))
    | _ -> print_endline "BADCASE")

(* ---------------------------------------------------------------- mapper engine *)
type cache = CLru of mresult option lru | CRr of mresult option rr

let cache_get (c : cache) k = match c with
  | CLru l -> let (r, l') = lru_get l k in (r, CLru l')
  | CRr r0 -> let (r, r') = rr_get r0 k in (r, CRr r')
let cache_add (c : cache) k v = match c with
  | CLru l -> CLru (lru_add l k v)
  | CRr r0 -> CRr (rr_add (fun _ -> O) r0 k v)
let cache_reset (c : cache) = match c with CLru l -> CLru (lru_reset l) | CRr r -> CRr (rr_reset r)

(* token reader *)
type rd = { toks : string array; mutable pos : int }
let next (r : rd) : string = let t = r.toks.(r.pos) in r.pos <- r.pos + 1; t
let rd_int r = int_of_string (next r)
let rd_z r = z_of_decimal (next r)
let rd_n r = n_of_int (rd_int r)
let rd_bytes r = bytes_of_hex (next r)
let rd_bool r = next r = "1"
let rd_opt r f = match next r with "N" -> None | "S" -> Some (f r) | t -> failwith ("opt: " ^ t)
let rd_list r f = let n = rd_int r in List.init n (fun _ -> f r)
let rd_f r = f_of_hex (next r)
let rd_optfl r = rd_opt r (fun r -> rd_list r rd_f)
let rd_optqs r = rd_opt r (fun r -> rd_list r (fun r -> let q = rd_f r in let e = rd_f r in (q, e)))
let rd_summ r : summ_ast =
  let q = rd_optqs r in let ma = rd_z r in let ab = rd_n r in let bc = rd_n r in
  { sa_quantiles = q; sa_max_age = ma; sa_age_buckets = ab; sa_buf_cap = bc }
let rd_rule r : rule_ast =
  let m = rd_bytes r in let nm = rd_bytes r in
  let labels = rd_list r (fun r -> let k = rd_bytes r in let v = rd_bytes r in (k, v)) in
  let honor = rd_bool r in
  let ot = rd_opt r rd_bytes in let tt = rd_opt r rd_bytes in
  let lb = rd_optfl r in let lq = rd_optqs r in
  let mt = rd_opt r rd_bytes in let help = rd_bytes r in
  let act = rd_opt r rd_bytes in let mmt = rd_opt r rd_bytes in let ttl = rd_z r in
  let su = rd_opt r rd_summ in let hi = rd_opt r rd_optfl in let sc = rd_opt r rd_f in
  { ra_match = m; ra_name = nm; ra_labels = labels; ra_honor = honor; ra_observer_type = ot;
    ra_timer_type = tt; ra_legacy_buckets = lb; ra_legacy_quantiles = lq; ra_match_type = mt;
    ra_help = help; ra_action = act; ra_mmt = mmt; ra_ttl = ttl; ra_summary = su; ra_hist = hi; ra_scale = sc }
let rd_config r : config_ast =
  match next r with
  | "U" -> Unparsable
  | "P" ->
    let d = rd_opt r (fun r ->
      let ot = rd_opt r rd_bytes in let tt = rd_opt r rd_bytes in let mt = rd_opt r rd_bytes in
      let dis = rd_bool r in let ttl = rd_z r in let su = rd_summ r in let hb = rd_optfl r in
      let lb = rd_optfl r in let lq = rd_optqs r in
      { da_observer_type = ot; da_timer_type = tt; da_match_type = mt; da_disable_ordering = dis;
        da_ttl = ttl; da_summary = su; da_hist = hb; da_legacy_buckets = lb; da_legacy_quantiles = lq }) in
    let rules = rd_list r rd_rule in
    Parsed (d, rules)
  | t -> failwith ("config: " ^ t)

let err_name = function
  | EYaml -> "EYaml" | EEnum -> "EEnum" | ELabelKey -> "ELabelKey" | ENoName -> "ENoName"
  | EBadName -> "EBadName" | EBadMatch -> "EBadMatch" | EBadRegex -> "EBadRegex"
  | EBothQuantiles -> "EBothQuantiles" | EBothBuckets -> "EBothBuckets"
  | EHistWithSummaryOpts -> "EHistWithSummaryOpts" | ESummWithHistOpts -> "ESummWithHistOpts"
  | EBadBuckets -> "EBadBuckets" | EBadSummary -> "EBadSummary"

let rule_string (r : rule) (res : mresult) : string =
  let ot = match r.ru_observer with ObsHistogram -> "h" | ObsSummary -> "s" | ObsDefault -> "d" in
  let scale = match r.ru_scale with Some f -> hex_of_f f | None -> "-" in
  let hb = match r.ru_hist with None -> "-"
    | Some b -> "[" ^ String.concat "," (List.map hex_of_f b) ^ "]" in
  let sq = match r.ru_summary with None -> "-"
    | Some s -> Printf.sprintf "[%s]/%d/%d/%d"
        (String.concat "," (List.map (fun (q, e) -> hex_of_f q ^ ":" ^ hex_of_f e) s.so_quantiles))
        (int_of_z s.so_max_age) (int_of_n s.so_age_buckets) (int_of_n s.so_buf_cap) in
  Printf.sprintf "Q %s %s %s ttl=%d drop=%d ot=%s honor=%d scale=%s hb=%s sq=%s mmt=%s" (hex_of_bytes r.ru_help)
    (hex_of_bytes res.mr_name) (labels_string res.mr_labels) (int_of_z r.ru_ttl)
    (if r.ru_drop then 1 else 0) ot (if r.ru_honor then 1 else 0) scale hb sq (hex_of_bytes r.ru_mmt)

exception Oracle_miss2 of string

let mapper_case (c : string) (ora : string) : string =
  (* oracles *)
  let compiles = Hashtbl.create 8 and matches = Hashtbl.create 16 and words = Hashtbl.create 8
  and bts = Hashtbl.create 4 in
  List.iter (fun tok ->
    match String.split_on_char ':' tok with
    | ["C"; h; b] -> Hashtbl.replace compiles h (b = "1")
    | ["M"; re; m; g] ->
      let groups = if g = "N" then None else
        Some (List.map (fun x -> if x = "!" then None else Some (bytes_of_hex x)) (String.split_on_char ',' g)) in
      Hashtbl.replace matches (re ^ ":" ^ m) groups
    | ["W"; cp; b] -> Hashtbl.replace words (int_of_string cp) (b = "1")
    | ["B"; oi; b] -> Hashtbl.replace bts (int_of_string oi) (b = "1")
    | _ -> ()) (split_ws ora);
  let uni_word (r : rune) = match Hashtbl.find_opt words (int_of_n r) with Some b -> b | None -> false in
  let re_compiles (src : byte list) = match Hashtbl.find_opt compiles (hex_of_bytes src) with
    | Some b -> b | None -> raise (Oracle_miss2 ("C:" ^ hex_of_bytes src)) in
  let re_match (src : byte list) (m : byte list) = match Hashtbl.find_opt matches (hex_of_bytes src ^ ":" ^ hex_of_bytes m) with
    | Some g -> g | None -> raise (Oracle_miss2 ("M:" ^ hex_of_bytes src ^ ":" ^ hex_of_bytes m)) in
  let cur_op = ref 0 in
  let heur_bt _ _ = match Hashtbl.find_opt bts !cur_op with Some b -> b | None -> false in
  let ops = Str.split (Str.regexp_string " | ") c in
  match ops with
  | [] -> "BADCASE"
  | hdr :: ops ->
    let cache = match split_ws hdr with
      | ["lru"; n] -> Some (CLru { lru_max = nat_of_int (int_of_string n); lru_items = [] })
      | ["rr"; n] -> Some (CRr { rr_size = nat_of_int (int_of_string n); rr_items = [] })
      | _ -> None in
    let m = ref (new_mapper cache) in
    let results = ref [] in
    (try
      List.iteri (fun oi op ->
        cur_op := oi;
        let toks = Array.of_list (split_ws op) in
        match toks.(0) with
        | "L" ->
          let r = { toks; pos = 4 } in
          let ast = rd_config r in
          let (e, m') = init_from_yaml heur_bt cache_reset re_compiles !m ast in
          m := m';
          results := ("L " ^ (match e with None -> "ok" | Some e -> err_name e)) :: !results
        | "Q" ->
          let ty = bytes_of_string toks.(1) and name = bytes_of_hex toks.(2) in
          let (res, m') = get_mapping uni_word re_match cache_get cache_add !m name ty in
          m := m';
          (match res with
           | None -> results := "Q -" :: !results
           | Some r -> (match List.nth_opt (!m).m_rules (int_of_nat r.mr_rule) with
               | Some ru -> results := rule_string ru r :: !results
               | None -> results := "Q BADRULE" :: !results))
        | "D" ->
          let h = ref 0xcbf29ce484222325L in
          let feed (str : string) = String.iter (fun ch ->
            h := Int64.mul (Int64.logxor !h (Int64.of_int (Char.code ch))) 0x100000001b3L) str in
          List.iter (fun nh ->
            let name = bytes_of_hex nh in
            List.iter (fun tys ->
              let (res, m') = get_mapping uni_word re_match cache_get cache_add !m name (bytes_of_string tys) in
              m := m';
              match res with
              | None -> feed "Q -;"
              | Some r -> (match List.nth_opt (!m).m_rules (int_of_nat r.mr_rule) with
                  | Some ru -> feed (rule_string ru r ^ ";")
                  | None -> feed "Q BADRULE;")) ["counter"; "gauge"; "observer"])
            (String.split_on_char ',' toks.(1));
          results := Printf.sprintf "D %016Lx" !h :: !results
        | _ -> results := "BADOP" :: !results) ops
    with Oracle_miss2 h -> results := ("ORACLE-MISS " ^ h) :: !results);
    String.concat " | " (List.rev !results)

let engine_mapper (cases : string) (hxout : string) =
  let ora = read_lines hxout in
  let i = ref 0 in
  iter_lines cases (fun c ->
    let o = ora.(!i) in incr i;
    let otxt = match String.index_opt o '\t' with
      | Some k -> String.sub o (k + 1) (String.length o - k - 1) | None -> "" in
    print_endline (mapper_case c otxt))

(* ---------------------------------------------------------------- pipeline engine *)
let mtype_char = function MCounter -> "c" | MGauge -> "g" | MSummary -> "s" | MHistogram -> "h"
let mtype_name = function MCounter -> "counter" | MGauge -> "gauge" | MSummary -> "summary" | MHistogram -> "histogram"

let sample_value_string (v : mvalue) : string =
  match v with
  | VCounter (i, f) -> hex_of_f (counter_value i f)
  | VGauge x -> hex_of_f x
  | VHist (bounds, counts, cnt, sum) ->
    let rec cum bs cs acc = match bs, cs with
      | b :: bs', c :: cs' -> let acc' = acc + int_of_n c in (hex_of_f b ^ ":" ^ string_of_int acc') :: cum bs' cs' acc'
      | _, _ -> [] in
    Printf.sprintf "%d/%s/%s" (int_of_n cnt) (hex_of_f sum) (String.concat "," (cum bounds counts 0))
  | VSumm (objs, cnt, sum) ->
    Printf.sprintf "%d/%s/%s" (int_of_n cnt) (hex_of_f sum) (String.concat "," (List.map hex_of_f objs))

let pairs_string (l : (byte list * byte list) list) : string =
  if l = [] then "-" else
  String.concat "&" (List.sort compare (List.map (fun (k, v) -> hex_of_bytes k ^ "=" ^ hex_of_bytes v) l))

let families_string (smp : sample list) : string list =
  let names = List.sort_uniq compare (List.map (fun s -> hex_of_bytes s.sm_name) smp) in
  List.map (fun nh ->
    let ss = List.filter (fun s -> hex_of_bytes s.sm_name = nh) smp in
    let first = List.hd ss in
    let series = List.sort compare (List.map (fun s -> pairs_string s.sm_labels ^ "@" ^ sample_value_string s.sm_value) ss) in
    Printf.sprintf "F:%s:%s:%s:%s" nh (mtype_char first.sm_type) (hex_of_bytes first.sm_help) (String.concat ";" series)) names
  |> List.sort compare

let tally_string (l : (byte list * n) list) : string =
  let l = List.filter (fun (_, c) -> int_of_n c <> 0) l in
  if l = [] then "-" else
  String.concat "," (List.sort compare (List.map (fun (k, c) -> hex_of_bytes k ^ ":" ^ string_of_int (int_of_n c)) l))

let telemetry_string (t : telemetry) (created : (mtype * n) list) : string =
  let conflicts = if t.t_conflicts = [] then "-" else
    String.concat "," (List.sort compare (List.map (fun ((ty, nm), c) ->
      hex_of_bytes nm ^ "/" ^ hex_of_bytes ty ^ ":" ^ string_of_int (int_of_n c)) t.t_conflicts)) in
  let unm = if int_of_n t.t_unmapped = 0 then "-" else ":" ^ string_of_int (int_of_n t.t_unmapped) in
  let metrics = if created = [] then "-" else
    String.concat "," (List.sort compare (List.map (fun (ty, c) ->
      hex_of_bytes (bytes_of_string (mtype_name ty)) ^ ":" ^ string_of_int (int_of_n c)) created)) in
  Printf.sprintf "T events=%s actions=%s unmapped=%s errors=%s conflicts=%s metrics=%s" (tally_string t.t_events)
    (tally_string t.t_actions) unm (tally_string t.t_errors) conflicts metrics

let builtin_samples : sample list =
  let mk n h t v = { sm_name = bytes_of_string n; sm_help = bytes_of_string h; sm_type = t; sm_labels = []; sm_value = v } in
  let z = f_of_hex "0000000000000000" in
  [ mk "statsd_exporter_lines_total" "The total number of StatsD lines received." MCounter (VCounter (Z0, z));
    mk "statsd_exporter_loaded_mappings" "The current number of configured metric mappings." MGauge (VGauge z);
    mk "go_goroutines" "Number of goroutines that currently exist." MGauge (VGauge z) ]

let pipeline_case (c : string) (ora : string) : string =
  let compiles = Hashtbl.create 8 and matches = Hashtbl.create 16 and words = Hashtbl.create 8
  and bts = Hashtbl.create 4 and floats = Hashtbl.create 32 in
  List.iter (fun tok ->
    match String.split_on_char ':' tok with
    | ["C"; h; b] -> Hashtbl.replace compiles h (b = "1")
    | ["M"; re; m; g] ->
      let groups = if g = "N" then None else
        Some (List.map (fun x -> if x = "!" then None else Some (bytes_of_hex x)) (String.split_on_char ',' g)) in
      Hashtbl.replace matches (re ^ ":" ^ m) groups
    | ["W"; cp; b] -> Hashtbl.replace words (int_of_string cp) (b = "1")
    | ["B"; oi; b] -> Hashtbl.replace bts (int_of_string oi) (b = "1")
    | ["F"; h; bits; e] -> Hashtbl.replace floats h (f_of_hex bits, e = "1")
    | _ -> ()) (split_ws ora);
  let uni_word (r : rune) = match Hashtbl.find_opt words (int_of_n r) with Some b -> b | None -> false in
  let re_compiles (src : byte list) = match Hashtbl.find_opt compiles (hex_of_bytes src) with
    | Some b -> b | None -> raise (Oracle_miss2 ("C:" ^ hex_of_bytes src)) in
  let re_match (src : byte list) (m : byte list) = match Hashtbl.find_opt matches (hex_of_bytes src ^ ":" ^ hex_of_bytes m) with
    | Some g -> g | None -> raise (Oracle_miss2 ("M:" ^ hex_of_bytes src ^ ":" ^ hex_of_bytes m)) in
  let pf (b : byte list) = match Hashtbl.find_opt floats (hex_of_bytes b) with
    | Some r -> r | None -> raise (Oracle_miss2 ("F:" ^ hex_of_bytes b)) in
  let cur_op = ref 0 in
  let heur_bt _ _ = match Hashtbl.find_opt bts !cur_op with Some b -> b | None -> false in
  let ops = Str.split (Str.regexp_string " | ") c in
  match ops with
  | [] -> "BADCASE"
  | hdr :: ops ->
    let (fl, cache) = match split_ws hdr with
      | [f; "lru"; n] -> (int_of_string f, Some (CLru { lru_max = nat_of_int (int_of_string n); lru_items = [] }))
      | [f; "rr"; n] -> (int_of_string f, Some (CRr { rr_size = nat_of_int (int_of_string n); rr_items = [] }))
      | f :: _ -> (int_of_string f, None)
      | [] -> (0, None) in
    let st = ref (init_sys (flags_of_int fl) cache (z_of_int 0)) in
    let results = ref [] in
    let do_step o = let (out, s') = step pf uni_word re_match heur_bt re_compiles cache_get cache_add cache_reset builtin_samples !st o in
      st := s'; out in
    (try
      List.iteri (fun oi op ->
        cur_op := oi;
        let toks = Array.of_list (split_ws op) in
        match toks.(0) with
        | "L" ->
          let r = { toks; pos = 4 } in
          (match do_step (OpLoad (rd_config r)) with
           | OutLoaded None -> results := "L ok" :: !results
           | OutLoaded (Some e) -> results := ("L " ^ err_name e) :: !results
           | _ -> results := "L ?" :: !results)
        | "I" ->
          (match do_step (OpLine (bytes_of_hex toks.(1))) with
           | OutLine false -> results := "I ok" :: !results
           | _ -> results := "I PANIC" :: !results)
        | "X" ->
          (* events that did not come through the parser's validity check: in every label value the three characters
             "!ff" stand for the byte 0xff *)
          let s = !st in
          let rec corrupt (v : byte list) = match v with
            | X21 :: X66 :: X66 :: r -> Xff :: corrupt r
            | b :: r -> b :: corrupt r
            | [] -> [] in
          (match line_to_events pf s.s_flags (bytes_of_hex toks.(1)) with
           | Ok (evs, _) ->
             let evs' = List.map (fun e -> { e with e_labels = List.map (fun (k, v) -> (k, corrupt v)) e.e_labels }) evs in
             let ((m, x), p) = handle_events uni_word re_match cache_get cache_add s.s_mapper s.s_exp s.s_now evs' in
             st := { s with s_mapper = m; s_exp = x };
             results := (if p then "I PANIC" else "I ok") :: !results
           | Panic -> results := "I PANIC" :: !results)
        | "A" -> ignore (do_step (OpAdvance (z_of_int (int_of_string toks.(1))))); results := "A" :: !results
        | "S" -> ignore (do_step OpSweep); results := "S" :: !results
        | "G" ->
          (match do_step OpGather with
           | OutGather (ok, smp, tel, created) ->
             let t = telemetry_string tel created in
             if ok then begin
               let fams = families_string smp in
               results := (String.concat " " (("G ok text=1" :: fams) @ [t])) :: !results end
             else results := ("G err " ^ t) :: !results
           | _ -> results := "G ?" :: !results)
        | _ -> results := "BADOP" :: !results) ops
    with Oracle_miss2 h -> results := ("ORACLE-MISS " ^ h) :: !results);
    String.concat " | " (List.rev !results)

let engine_pipeline (cases : string) (hxout : string) =
  let ora = read_lines hxout in
  let i = ref 0 in
  iter_lines cases (fun c ->
    let o = ora.(!i) in incr i;
    let otxt = match String.index_opt o '\t' with
      | Some k -> String.sub o (k + 1) (String.length o - k - 1) | None -> "" in
    print_endline (pipeline_case c otxt))

(* ---------------------------------------------------------------- queue engine *)
let queue_case (c : string) : string =
  let ops = Str.split (Str.regexp_string " | ") c in
  match ops with
  | [] -> "BADCASE"
  | hdr :: ops ->
    let threshold = int_of_string (List.hd (split_ws hdr)) in
    let st = ref (qinit (nat_of_int threshold) (nat_of_int 100000) []) in
    let next = ref 0 in
    let results = List.map (fun op ->
      let before = List.length (!st).q_delivered in
      (match split_ws op with
       | ["Q"; k] ->
         let k = int_of_string k in
         let evs = List.init k (fun i -> nat_of_int (!next + i)) in
         next := !next + k;
         st := do_queue !st evs
       | ["T"] -> st := do_tick !st
       | _ -> ());
      let dl = (!st).q_delivered in
      let fresh = List.filteri (fun i _ -> i >= before) dl in
      let bs = List.map (fun b -> if b = [] then "e" else String.concat "," (List.map (fun e -> string_of_int (int_of_nat e)) b)) fresh in
      Printf.sprintf "%s len=%d" (String.concat ";" bs) (List.length (!st).q_pending)) ops in
    String.concat " | " results

let engine_queue (cases : string) = iter_lines cases (fun c -> print_endline (queue_case c))

(* ---------------------------------------------------------------- relay engine *)
let relay_case (c : string) : string =
  let ops = Str.split (Str.regexp_string " | ") c in
  match ops with
  | [] -> "BADCASE"
  | hdr :: ops ->
    let plen = int_of_string (List.hd (split_ws hdr)) in
    let st = ref (new_relay (z_of_int plen)) in
    let ok = ref true in
    List.iter (fun op ->
      match split_ws op with
      | ["R"; h] -> st := rstep (rstep !st (RLine (bytes_of_hex h))) (RRecv !ok)
      | ["T"] -> st := rstep (rstep !st (RTick !ok)) (RTick !ok)
      | ["F"] -> ok := false
      | _ -> ()) ops;
    st := rstep (rstep !st (RTick !ok)) (RTick !ok);
    let sent = (!st).r_sent in
    Printf.sprintf "sent=%s relayed=%d long=%d packets=%d notes=-"
      (if sent = [] then "-" else String.concat "," (List.map hex_of_bytes sent))
      (int_of_n (!st).r_relayed) (int_of_n (!st).r_long) (int_of_n (!st).r_packets)

let engine_relay (cases : string) = iter_lines cases (fun c -> print_endline (relay_case c))

(* ---------------------------------------------------------------- listener engine *)
let hex_list (l : byte list list) : string =
  if l = [] then "none" else String.concat "," (List.map hex_of_bytes l)

let listener_case (c : string) : string =
  let f = Array.of_list (split_ws c) in
  let framed (lines : byte list list) (toolong : bool) (relay : string) =
    let calls = List.map (fun l -> if l = [] then "e" else hex_of_bytes l) lines in
    let relayed = if relay = "1" then hex_list (List.filter (fun l -> l <> []) lines) else "off" in
    Printf.sprintf "lines=%s calls=%s L=%d toolong=%d tcperr=0 relayed=%s" (hex_list lines)
      (if calls = [] then "-" else String.concat "," calls) (List.length lines) (if toolong then 1 else 0) relayed in
  match f.(0) with
  | "U" | "X" -> framed (packet_lines (bytes_of_hex f.(1))) false f.(2)
  | "T" -> let (ls, closed) = tcp_lines (bytes_of_hex f.(1)) in framed ls closed f.(3)
  | "P" ->
    let q = ref (pq_new (nat_of_int (int_of_string f.(1)))) in
    List.iter (fun op ->
      if op = "D" then q := pq_step !q PProcess
      else q := pq_step !q (PRecv (bytes_of_hex (String.sub op 1 (String.length op - 1)))))
      (String.split_on_char ',' f.(2));
    let lines = List.concat_map packet_lines (!q).pq_processed in
    let calls = List.map (fun l -> if l = [] then "e" else hex_of_bytes l) lines in
    Printf.sprintf "lines=%s calls=%s L=%d udp=%d drops=%d queued=%d" (hex_list lines)
      (if calls = [] then "" else String.concat "," calls) (List.length lines) (int_of_nat (!q).pq_packets)
      (int_of_nat (!q).pq_drops) (List.length (!q).pq_queue)
  | _ -> "BADCASE"

let engine_listener (cases : string) = iter_lines cases (fun c -> print_endline (listener_case c))

(* ---------------------------------------------------------------- model-internal self test:
   fsm_get_mapping against first_match / most_specific on an exhaustive small scope
   (a TEST of the theorem statements, not a proof) *)
let selftest_fsm (maxrules : int) =
  let b s = bytes_of_string s in
  let comps = ["a"; "b"; "*"] in
  let pats = List.concat_map (fun x -> [[x]]) comps
    @ List.concat_map (fun x -> List.map (fun y -> [x; y]) comps) comps
    @ List.concat_map (fun x -> List.concat_map (fun y -> List.map (fun z -> [x; y; z]) comps) comps) comps in
  let types = [""; "counter"; "gauge"] in
  let shapes = List.concat_map (fun p -> List.map (fun t -> (List.map b p, b t)) types) pats in
  let ncomps = ["a"; "b"; "*"; "z"] in
  let names = List.concat_map (fun x -> [[x]]) ncomps
    @ List.concat_map (fun x -> List.map (fun y -> [x; y]) ncomps) ncomps
    @ List.concat_map (fun x -> List.concat_map (fun y -> List.map (fun z -> [x; y; z]) ncomps) ncomps) ncomps
    @ [["a"; ""]; [""]] in
  let names = List.map (fun n -> b (String.concat "." n)) names in
  let tys = [b "counter"; b "gauge"; b "observer"] in
  let shapes_a = Array.of_list shapes in
  let ns = Array.length shapes_a in
  let count = ref 0 and bad = ref 0 in
  let check (rules : grule list) =
    let amb = has_ambiguous_wildcard (List.map (fun g -> g.g_fields) rules) in
    List.iter (fun nm -> List.iter (fun ty ->
      incr count;
      let fields = split_byte c_dot nm in
      let o = fsm_get_mapping rules true false nm ty in
      if o <> first_match rules ty fields then (incr bad; if !bad < 5 then Printf.printf "ORDERED-MISMATCH rules=%d name=%s\n" (List.length rules) (string_of_bytes nm));
      let u1 = fsm_get_mapping rules true true nm ty in
      let sp = most_specific rules ty fields in
      if u1 <> sp then (incr bad; if !bad < 5 then Printf.printf "UNORDERED-MISMATCH(bt) name=%s\n" (string_of_bytes nm));
      if not amb then begin
        let u0 = fsm_get_mapping rules false true nm ty in
        if u0 <> sp then (incr bad; if !bad < 5 then Printf.printf "UNORDERED-MISMATCH(nobt) name=%s\n" (string_of_bytes nm)) end) tys) names in
  let mk i (f, t) = { g_prio = nat_of_int i; g_fields = f; g_mmt = t } in
  for i = 0 to ns - 1 do
    check [mk 0 shapes_a.(i)];
    if maxrules >= 2 then for j = 0 to ns - 1 do
      check [mk 0 shapes_a.(i); mk 1 shapes_a.(j)];
      if maxrules >= 3 && (i * 7 + j) mod 11 = 0 then for k = 0 to ns - 1 do
        check [mk 0 shapes_a.(i); mk 1 shapes_a.(j); mk 2 shapes_a.(k)] done
    done
  done;
  Printf.printf "selftest-fsm lookups=%d mismatches=%d\n" !count !bad

let () =
  match Array.to_list Sys.argv with
  | _ :: "escape" :: cases :: _ -> engine_escape cases
  | _ :: "cachekeys" :: cases :: _ ->
    iter_lines cases (fun c ->
      match split_ws c with
      | ["RELOAD"; _] -> print_endline "RELOAD"        (* judged by the driver: the model resets once per successful load *)
      | [ty; h] ->
        let k = hex_of_bytes (format_key (bytes_of_hex h) (bytes_of_string ty)) in
        Printf.printf "G=%s A=%s\n" k k
      | _ -> print_endline "BADCASE")
  | _ :: "line" :: cases :: hxout :: _ -> engine_line cases hxout
  | _ :: "mapper" :: cases :: hxout :: _ -> engine_mapper cases hxout
  | _ :: "pipeline" :: cases :: hxout :: _ -> engine_pipeline cases hxout
  | _ :: "queue" :: cases :: _ -> engine_queue cases
  | _ :: "relay" :: cases :: _ -> engine_relay cases
  | _ :: "listener" :: cases :: _ -> engine_listener cases
  | _ :: "selftest-fsm" :: n :: _ -> selftest_fsm (int_of_string n)
  | _ -> prerr_endline "usage: runner <engine> <casefile> [hx output]"; exit 2
